#!/bin/bash
# MANIFEST.setup_cmd: nothing is built from /repo here (every check rebuilds it); only verify the tools exist.
set -e
for t in java gcc clang apalache-mc /usr/bin/python3 cmake ninja; do command -v $t >/dev/null || { echo "missing tool: $t"; exit 1; }; done
test -f /opt/veriftools/tla/tla2tools.jar
/usr/bin/python3 -c "import bz2"
mkdir -p /verif/evidence
echo setup ok
