#!/usr/bin/python3
"""Plaintext input families for the compression campaigns (C01-C04, C13, C20)."""
import random


def fib_string(n):
    a, b = b"a", b"ab"
    while len(b) < n:
        a, b = b, b + a
    return b[:n]


def runs(rng, nruns, lens, alphabet=4):
    return b"".join(bytes([rng.randrange(alphabet)]) * rng.choice(lens) for _ in range(nruns))


def segments(desc):
    """desc: list of ("lit", n, seed) | ("run", byte, n)"""
    out = bytearray()
    for d in desc:
        if d[0] == "run":
            out += bytes([d[1]]) * d[2]
        else:
            r = random.Random(d[2])
            prev = -1
            for _ in range(d[1]):
                x = r.randrange(256)
                while x == prev:
                    x = r.randrange(256)
                out.append(x)
                prev = x
    return bytes(out)


def families(rng, tier):
    """list of (name, bytes)"""
    out = [("empty", b""), ("one", b"\x00"), ("two", b"ab"), ("four_eq", b"zzzz"), ("five_eq", b"zzzzz")]
    out.append(("rand3k", rng.randbytes(3000)))
    out.append(("runs_small", runs(rng, 300, [1, 2, 3, 4, 5, 6])))
    out.append(("runs_259", runs(rng, 120, [3, 4, 5, 254, 255, 256, 258, 259, 260, 261, 518, 519], 3)))
    out.append(("alt", b"ab" * 30000))
    out.append(("fib", fib_string(120000)))
    out.append(("tandem", (rng.randbytes(513) * 300)[:150000]))
    out.append(("text", b"".join(b"line %d of some text, the quick brown fox\n" % (i * 7919 % 1000) for i in range(6000))))
    out.append(("zeros", b"\0" * 250000))
    # block-capacity boundaries at level 1 (100000 bytes after run-length encoding)
    for k in (0, 1, 3, 5):
        out.append(("cap1_lit_%d" % k, segments([("lit", 100000 - k, 11), ("run", 65, 7), ("lit", 3000, 12)])))
    out.append(("cap1_run_tail", segments([("lit", 99990, 13), ("run", 66, 300), ("lit", 50000, 14)])))
    out.append(("chunk_in_run", segments([("lit", 99998, 15), ("run", 67, 9), ("lit", 100000, 16), ("run", 68, 600)])))
    out.append(("rand300k", rng.randbytes(300000)))
    if tier == "thorough":
        out.append(("rand2m", rng.randbytes(2000000)))
        out.append(("text3m", b"".join(b"%d bottles of beer on the wall\n" % (i % 977) for i in range(100000))))
        out.append(("fib1m", fib_string(1000000)))
        out.append(("runs_big", runs(rng, 20000, [1, 2, 3, 4, 5, 100, 259, 260, 1000], 5)))
    return out
