#!/usr/bin/python3
"""Run model-checking configurations of MCCompress / MCExpand with TLC."""
import os, sys, time
from concurrent.futures import ThreadPoolExecutor
sys.path.insert(0, os.path.dirname(os.path.abspath(__file__)))
import vlib

CINV = ["DataInv", "NextTaskFresh", "ShapeOK", "Termination", "NoDeadlock"]
XINV = ["DataInv", "InSlotsOK", "NextTaskFresh", "OutputIsSequential", "FailsOnlyIfSeqFails", "Termination", "NoDeadlock"]


def run_one(kind, name, consts, liveness=True, workers=4, timeout=900, invariants=None, xmx="6g"):
    base = "MCCompress" if kind == "compress" else "MCExpand"
    mods = ["Compress.tla", "MCCompress.tla"] if kind == "compress" else ["Expand.tla", "MCExpand.tla"]
    d = vlib.spec_workdir("mc_" + name, mods)
    if "Cands" in consts:
        consts = dict(consts, Cands=vlib.TSet(consts["Cands"]))
    inv = invariants or (CINV if kind == "compress" else XINV)
    tla, cfg = vlib.mc_instance(d, "I_" + name, base, consts, invariants=inv,
                                properties=["Live"] if liveness else [], spec="FairSpec" if liveness else "Spec")
    r = vlib.tlc(d, tla, cfg, workers=workers, timeout=timeout, xmx=xmx, allow_timeout=True)
    r.liveness = liveness
    if r.timed_out and liveness:
        # the fairness check did not finish in time: at least the safety part (deadlock, capacities, conservation, order)
        tla, cfg = vlib.mc_instance(d, "S_" + name, base, consts, invariants=inv, properties=[], spec="Spec")
        r = vlib.tlc(d, tla, cfg, workers=workers, timeout=timeout, xmx=xmx, allow_timeout=True)
        r.liveness = False
    return name, consts, r


def run_many(kind, configs, liveness=True, par=4, workers=4, timeout=900):
    with ThreadPoolExecutor(max_workers=par) as ex:
        futs = [ex.submit(run_one, kind, n, c, liveness, workers, timeout) for n, c in configs]
        return [f.result() for f in futs]


if __name__ == "__main__":
    import shapes
    kind, sel = sys.argv[1], sys.argv[2]
    table = {"cq": shapes.COMPRESS_QUICK, "ct": shapes.COMPRESS_THOROUGH, "xq": shapes.EXPAND_QUICK,
             "xt": shapes.EXPAND_THOROUGH_FIXED, "f1": [shapes.EXPAND_F1]}[sel]
    if len(sys.argv) > 3:
        table = [t for t in table if t[0] in sys.argv[3:]]
    t0 = time.time()
    for name, consts, r in run_many(kind, table, par=4):
        print("%-18s ok=%s distinct=%d generated=%d violated=%s temporal=%s wall=%.1fs" %
              (name, r.ok, r.distinct, r.generated, r.violated, r.temporal, r.wall))
        if not r.ok:
            print(r.text[-3000:])
    print("total %.1fs" % (time.time() - t0))
