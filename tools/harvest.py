#!/usr/bin/python3
"""Copies seeded changes that tools/seedcheck.sh confirmed into /verif/seeded/<id>/."""
import os,shutil,json,re,glob,sys
for log in sorted(glob.glob('/tmp/sc/*.log')):
    t=open(log).read()
    m=re.search(r'RESULT name=(\S+) clean_rc=(\d+) ctest_pass=(\d+) changed_rc=(\d+)',t)
    if not m: continue
    name,clean,ct,ch=m.group(1),int(m.group(2)),int(m.group(3)),int(m.group(4))
    dst='/verif/seeded/%s'%name
    if os.path.exists(dst): continue
    if not (clean==0 and ct==1 and ch!=0): print("NOT CONFIRMED",name,clean,ct,ch); continue
    pid,short=name.split('-',1)
    src='/tmp/seed/%s/.seed/%s'%(pid,short)
    if not os.path.exists(src): src='/tmp/seed2/%s/.seed/%s'%(pid,short)
    if not os.path.exists(src): src='/tmp/seed3/%s/.seed/%s'%(pid,short)
    if not os.path.exists(src): src='/tmp/seed4/%s/.seed/%s'%(pid,short)
    if os.path.exists('/tmp/rbseed/%s'%name): src='/tmp/rbseed/%s'%name
    shutil.copytree(src,dst)
    reb='/tmp/sc/%s.rebased.diff'%name
    if os.path.exists(reb) and os.path.getsize(reb)>0:
        os.rename(dst+'/patch.diff', dst+'/patch.orig.diff'); shutil.copy(reb, dst+'/patch.diff')
    readme=open(dst+'/README.md').read()
    meta={"id":name,"property":pid,"breaks":readme.strip().split('\n')[0][:200],
          "needs":"see README.md (written by the sub-agent that produced the change)",
          "confirmed":{"how":"tools/seedcheck.sh in a scratch worktree of /repo HEAD: demo.sh on the clean tree, git apply, cmake build, ctest -j6 (1111 tests), demo.sh on the changed tree",
                       "clean_demo_rc":clean,"ctest_all_pass":bool(ct),"changed_demo_rc":ch},
          "patch":"patch.diff applies to /repo HEAD"}
    json.dump(meta,open(dst+'/meta.json','w'),indent=1)
    print("harvested",name)
