#!/usr/bin/python3
"""Decompression sessions over a corpus of valid / invalid compressed inputs (C05, C06, C07, C15):
stimuli come from spec/BZ2.tla (valid files varying every legal degree of freedom, files with exactly
one defect), from mutations of real streams judged by the calibrated inspector, from the repository's
specimens and from libbz2; the real binary decodes each under several configurations."""
import bz2, glob, os, random, sys
sys.path.insert(0, os.path.dirname(os.path.abspath(__file__)))
import vlib, sched, bzfmt, bzgen, inputs


class Item:
    def __init__(self, label, data, valid, plain, exception=None, origin="", nontrivial=True):
        self.label, self.data, self.valid, self.plain = label, data, valid, plain
        self.exception, self.origin, self.nontrivial = exception, origin, nontrivial


def spec_items(mode, n, seed, rep=None):
    out = []
    behs = bzgen.tlc_files(mode, n, seed)
    for i, b in enumerate(behs):
        data, plain, info = bzgen.file_bytes(b["file"])
        v = b["verdict"]
        valid = v["valid"]
        exc = "documented exception" if (valid and v["lbz_rejects"]) else None
        # the inspector (independent code path, derandomisation included) must agree with the specification's verdict,
        # otherwise neither can serve as the reference for this file
        ins = bzfmt.inspect(data)
        if ins.valid != valid or (valid and bool(ins.lbz_exception) != bool(exc)):
            import vlib
            raise vlib.Infra("BZ2.tla and tools/bzfmt.py disagree on %s%d (%s): specification valid=%s exception=%s, inspector valid=%s (%s) exception=%s"
                             % (mode, i, info["kind"], valid, bool(exc), ins.valid, ins.reason, ins.lbz_exception))
        nblocks = sum(len(s["blocks"]) for s in b["file"]["streams"])
        out.append(Item("%s%d:%s" % (mode, i, info["kind"]), data, valid, plain, exc, origin="BZ2.tla " + mode,
                        nontrivial=nblocks >= 1))
    return out


def inspected(label, data, origin):
    ins = bzfmt.inspect(data)
    return Item(label, data, ins.valid, ins.plain if ins.valid else None, ins.lbz_exception, origin), ins


def specimen_items():
    out = []
    for f in sorted(glob.glob(os.path.join(vlib.REPO, "tests", "*.bz2"))):
        it, ins = inspected("specimen:" + os.path.basename(f), open(f, "rb").read(), "tests/*.bz2")
        out.append(it)
    return out


def third_party_items(rng, tier):
    out = []
    fam = inputs.families(rng, "quick")
    sel = fam if tier == "thorough" else [x for x in fam if x[0] in ("one", "runs_259", "fib", "text", "rand3k", "cap1_lit_1", "zeros")]
    for name, data in sel:
        for level in ((1, 5, 9) if tier == "quick" else range(1, 10)):
            z = bz2.compress(data, level)
            out.append(Item("libbz2:%s:-%d" % (name, level), z, True, data, origin="libbz2"))
    # concatenated streams of different levels, trailing non-header data
    a, b = bz2.compress(b"first " * 500, 9), bz2.compress(b"second " * 400, 1)
    out.append(Item("libbz2:concat", a + b + bz2.compress(b"", 3), True, b"first " * 500 + b"second " * 400, origin="libbz2"))
    out.append(Item("libbz2:trailing", a + b"\x00\x01garbage", True, b"first " * 500, origin="libbz2"))
    out.append(Item("libbz2:trailing_BZ", a + b"BZ", True, b"first " * 500, origin="libbz2"))
    out.append(Item("libbz2:trailing_BZh0", a + b"BZh0abc", True, b"first " * 500, origin="libbz2"))
    return out


def crafted_items(tier):
    """legal extremes no common encoder produces"""
    out = []
    pl = bytes((i * 7 + i // 3) % 251 for i in range(3000))
    for n in (600, 1236, 1237, 5000):
        p = (pl * 3)[:n]
        bw, crc = bzfmt.rand_block(p)
        out.append(Item("crafted:randomised_%d" % n, bzfmt.stream_bytes([(bw, crc)], 1), True, p, origin="bzfmt.rand_block"))
    bw, crc, plain = bzfmt.full_block(900000)
    out.append(Item("crafted:full_block_18001_groups", bzfmt.stream_bytes([(bw, crc)], 9), True, plain, origin="bzfmt.full_block"))
    bw, crc, plain = bzfmt.full_block(899999, seed=3, idx=0)
    out.append(Item("crafted:block_899999", bzfmt.stream_bytes([(bw, crc)], 9), True, plain, origin="bzfmt.full_block"))
    bw, crc, plain = bzfmt.full_block(2000, seed=4, nsel_extra=32767 - 41)
    out.append(Item("crafted:32767_selectors", bzfmt.stream_bytes([(bw, crc)], 9), True, plain, origin="bzfmt.full_block"))
    # the same 100001-byte block is an overflow at level 1 and legal at level 2
    blk = bzgen.overflow_block(1)
    bw, crc, plain = bzgen.block_bits(blk)
    out.append(Item("crafted:100001_at_level2", bzfmt.stream_bytes([(bw, crc)], 2), True, plain, origin="bzgen.overflow_block"))
    out.append(Item("crafted:100001_at_level1", bzfmt.stream_bytes([(bw, crc)], 1), False, None, origin="bzgen.overflow_block"))
    # the run that ends a block (terminated by EOB) overruns the block by far: an overflow, at any level
    def runsyms(n):
        out = []
        while n > 0:
            n -= 1
            out.append(n & 1)
            n >>= 1
        return out
    for n, level in ((2000000, 9), (1948576, 9), (3000000, 1)):
        w = bzfmt.block_writer(runsyms(n) + [2], [7], 0, [[1, 2, 2], [2, 2, 1]], [0], 0x0BADC0DE)
        out.append(Item("crafted:final_run_%d_at_level%d" % (n, level), bzfmt.stream_bytes([(w, 0x0BADC0DE)], level), False, None, origin="bzfmt.block_writer"))
    # (the same after some literal symbols)
    w = bzfmt.block_writer([2, 3, 2] + runsyms(1500000) + [4], [65, 66, 67], 0, [[2, 2, 2, 3, 3], [2, 2, 2, 3, 3]], [0], 0x0BADC0DE)
    out.append(Item("crafted:literals_then_final_run_1500000", bzfmt.stream_bytes([(w, 0x0BADC0DE)], 9), False, None, origin="bzfmt.block_writer"))
    # a run whose length wraps a 32-bit counter (RUNB, 31 x RUNA = 2^32) is an overflow, not an empty run;
    # more than 128 bytes follow, so the decoder's fast path sees it
    used = [65, 66, 67]
    syms = [1] + [0] * 31 + [2, 3, 2, 3, 4]
    # (the stored CRC is that of the block WITHOUT the 32 run symbols: a decoder whose counter wraps sees a consistent file)
    shadow_crc = bzfmt.bzcrc(bzfmt.symbols_plain([2, 3, 2, 3, 4], used, 0)[2])
    wrap = bzfmt.block_writer(syms, used, 0, [[2, 2, 2, 3, 3], [2, 2, 2, 3, 3]], [0], shadow_crc)
    fill1, c1 = bzfmt.simple_block(bytes((i * 37 + i // 5) % 256 for i in range(700)))
    fill2, c2 = bzfmt.simple_block(bytes((i * 11) % 253 for i in range(500)))
    out.append(Item("crafted:run_wraps_32_bits", bzfmt.stream_bytes([(wrap, shadow_crc), (fill1, c1), (fill2, c2)], 9), False, None, origin="bzfmt.block_writer"))
    # a later stream with a lower level than the first must be judged by its own level
    bwa, crca = bzfmt.simple_block(b"level nine stream\n" * 10)
    s9 = bzfmt.stream_bytes([(bwa, crca)], 9)
    out.append(Item("crafted:9_then_overflowing_1", s9 + bzfmt.stream_bytes([(bw, crc)], 1), False, None, origin="bzgen.overflow_block"))
    out.append(Item("crafted:9_then_2", s9 + bzfmt.stream_bytes([(bw, crc)], 2), True, b"level nine stream\n" * 10 + plain, origin="bzgen.overflow_block"))
    return out


def tail_files():
    """Small valid files for the truncation sweep chosen for their last bytes: for every length residue mod 4 (the reader
    pads the last 32-bit word with zero bytes) one file that ends in 0x00 and one that ends in 0xFF - what the padding
    could be mistaken for.  Found by search over tiny libbz2 outputs."""
    out = []
    # (k, level) found once by searching k = 0, 1, 2, ... with level = 1 + (k + 1) % 9; re-checked here
    for k, level in ((4, 6), (10, 3), (116, 1), (1002, 5), (9009, 2), (12140, 1), (31724, 1), (104131, 3)):
        plain = b"tail %d\n" % k
        z = bz2.compress(plain, level)
        if z[-1] in (0x00, 0xFF):
            out.append(Item("tail:len%%4=%d,last=%02x" % (len(z) % 4, z[-1]), z, True, plain, origin="libbz2 (searched)"))
    return out


def mutation_items(rng, base_items, n, field_aware=True):
    """single/multi-site mutations of real streams; verdict and bytes from the calibrated inspector"""
    out = []
    bases = [it for it in base_items if it.valid and 40 < len(it.data) < 60000]
    tries = 0
    while len(out) < n and tries < n * 4:
        tries += 1
        it = rng.choice(bases)
        d = bytearray(it.data)
        kind = rng.choice(["bitflip", "byte", "field", "field", "truncate", "dup", "multi"])
        if kind == "bitflip":
            p = rng.randrange(len(d) * 8)
            d[p >> 3] ^= 0x80 >> (p & 7)
        elif kind == "byte":
            d[rng.randrange(len(d))] = rng.randrange(256)
        elif kind == "multi":
            for _ in range(rng.randrange(2, 5)):
                p = rng.randrange(len(d) * 8)
                d[p >> 3] ^= 0x80 >> (p & 7)
        elif kind == "truncate":
            d = d[: rng.randrange(len(d))]
        elif kind == "dup":
            p = rng.randrange(len(d))
            d = d[:p] + d[p:p + rng.randrange(1, 9)] + d[p:]
        else:
            ins = bzfmt.inspect(it.data)
            if not ins.blocks:
                continue
            b = rng.choice(ins.blocks)
            f = rng.choice(["crc", "idx", "bitmap", "ntrees", "nsel", "selectors", "tables", "data", "magic", "rand"])
            st, ln = b.at[f]
            if ln == 0:
                continue
            p = st + rng.randrange(ln)
            d[p >> 3] ^= 0x80 >> (p & 7)
        m, ins = inspected("mut:%s:%s" % (kind, it.label), bytes(d), "mutation of " + it.origin)
        m.kind = kind
        out.append(m)
    return out


def truncation_items(it):
    """every proper prefix of a valid file (exhaustive per file)"""
    out = []
    for n in range(len(it.data)):
        m, ins = inspected("trunc%d:%s" % (n, it.label), it.data[:n], "truncation of " + it.origin)
        out.append(m)
    return out


def decode_cases(items, rng, configs=None, mode="stdin"):
    """one Case per (item, config)"""
    cases = []
    for it in items:
        cfgs = configs or [(1, {}), (rng.choice([2, 3, 4]), {"VERIF_SCHED_SEED": rng.randrange(100)})]
        for ci, (W, env) in enumerate(cfgs):
            env = dict(env)
            # the first configuration always runs with the default I/O block size (the decoder's fast paths need whole input
            # blocks); the others are cut into tiny input blocks half of the time
            if ci > 0 and len(it.data) < 4000 and "VERIF_IN_GRANUL" not in env and rng.random() < 0.5:
                env["VERIF_IN_GRANUL"] = rng.choice([4, 8, 32, 64, 256])
            c = sched.Case("%s|d W=%d %s" % (it.label, W, env), ["-d", "-n", str(W)], it.data, env, kind="expand",
                           timeout=60, mode=mode)
            c.item = it
            cases.append(c)
    return cases
