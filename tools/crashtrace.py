"""Validation of the main thread's recorded path (spec/TraceCrash.tla), shared by the C16 and C21 checks."""
import json, os, re
import vlib

MAINPATH = ("OpIn", "Cli", "OpOut", "Worked", "Halt", "OutDone", "InRm", "Sti", "StiDone", "InDone", "Exit", "Cleanup", "Terminate",
            "BailoutMain", "BailoutSub")


def unit(label, keep, fault, trace, res, inp, out):
    """Plan line, the run's main-path events, End line (what the driver observed)"""
    lines = [json.dumps({"e": "Plan", "keep": bool(keep), "fault": fault, "what": label})]
    if trace and os.path.exists(trace):
        for line in open(trace):
            m = re.search(r'"e":"(\w+)"', line)
            if m and m.group(1) in MAINPATH and line.rstrip().endswith("}"):
                lines.append(line.strip())
    lines.append(json.dumps({"e": "End", "res": res, "inp": inp, "out": out}))
    return (label, lines)


def validate_units(rep, units, tag="tcrash"):
    """All units as one concatenated trace; returns [(reason, label)] for rejected ones."""
    d = vlib.spec_workdir(tag, ["TraceCrash.tla"])
    with open(os.path.join(d, "T.cfg"), "w") as f:
        f.write("SPECIFICATION Spec\nINVARIANTS NotAccepted\nCHECK_DEADLOCK FALSE\n")

    def check(us, tag):
        cat = os.path.join(d, "cat_%s.ndjson" % tag)
        with open(cat, "w") as fh:
            for _, ls in us:
                fh.write("\n".join(ls) + "\n")
        r = vlib.tlc(d, "TraceCrash.tla", "T.cfg", env={"TRACE": cat}, workers=1, timeout=900, extra=["-metadir", os.path.join(d, "md_" + tag)])
        ok = r.violated == ["NotAccepted"]
        if not ok and not r.rejects and not (r.completed or r.distinct):
            raise vlib.Infra("TLC failed on %s:\n%s" % (cat, r.text[-1500:]))
        return ok, r
    n = sum(len(ls) for _, ls in units)
    rep.add("main_path_events_validated", n)
    rep.add("traces_validated_against_impl", len(units))
    ok, r = check(units, "all")
    if ok:
        return []
    # localise by bisection over units
    bad, todo = [], [units]
    while todo and len(bad) < 4:
        us = todo.pop()
        ok, r = check(us, "b%d" % len(us))
        if ok:
            continue
        if len(us) == 1:
            i, ev, why = r.rejects[-1] if r.rejects else (r.distinct, "?", "event not explained by any action")
            bad.append(("event %s (%s): %s" % (i, ev, why), us[0][0]))
        else:
            todo += [us[len(us) // 2:], us[:len(us) // 2]]
    if not bad:
        raise vlib.Infra("concatenated main-path trace rejected but every single run accepted")
    return bad


