#!/bin/bash
# tryseed.sh <patch.diff> <property id>... : apply a seeded change to /repo, run the quick checks, undo it.
patch=$1; shift
cd /repo || exit 2
git diff --quiet || { echo "/repo has uncommitted changes"; exit 2; }
git apply "$patch" || git apply -3 "$patch" || { echo "patch does not apply"; exit 2; }
trap 'git -C /repo checkout -- . ; git -C /repo reset -q' EXIT
cd /verif
for p in "$@"; do
  out=$(VERIF_SCRATCH=${VERIF_SCRATCH:-/var/tmp} tools/check "$p" --tier quick 2>&1); rc=$?
  echo "== $p rc=$rc: $(echo "$out" | grep -c '^VIOLATION') violation lines"
  echo "$out" | grep -A1 -m3 '^VIOLATION\|^INFRA' | cut -c1-260
done
