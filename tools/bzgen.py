#!/usr/bin/python3
"""Streams from spec/BZ2.tla: TLC (simulation mode) draws file descriptions - valid ones that vary
every legal degree of freedom, or ones with exactly one defect - together with the verdict of the
specification; this module serialises them with tools/bzfmt.py.  In "calibrate" mode TLC also
computes the bytes and the plaintext itself and both serialiser and inspector must agree with it."""
import json, os, random, sys
sys.path.insert(0, os.path.dirname(os.path.abspath(__file__)))
import vlib, bzfmt, inproc
from bzfmt import BitWriter


def tlc_files(mode, n, seed, maxsyms=60, workers=8, depth=8, tag="bz"):
    """About n distinct file descriptions from BZ2.tla (simulation mode).  Several single-worker TLC
    processes with different seeds run side by side (workers of one TLC process share the seed)."""
    from concurrent.futures import ThreadPoolExecutor
    procs = max(1, min(workers, (n + depth - 1) // depth))
    steps = depth * (2 if mode == "defect" else 1)        # a defect file takes two steps
    per = max(1, (n + procs * depth - 1) // (procs * depth))

    def one(i):
        behs, r = inproc.gen("BZ2", dict(Mode=mode, MaxSyms=maxsyms), ["Export"], "%s_%s_%d" % (tag, mode, i), workers=1,
                             simulate=per, depth=steps, seed=seed * 1000 + i, timeout=900, xmx="2g")
        if behs is None:
            raise vlib.Infra("BZ2.tla generator failed:\n" + r.text[-2000:])
        return behs
    with ThreadPoolExecutor(max_workers=procs) as ex:
        parts = list(ex.map(one, range(procs)))
    out, seen = [], set()
    for part in parts:
        for b in part:
            k = json.dumps(b["file"], sort_keys=True)
            if k not in seen:
                seen.add(k)
                out.append(b)
    return out


# ------------------------------------------------------------------ serialisation of descriptions
def _table_bits(lens, path, defect=None):
    """delta coding; defect = ("low"|"high", symbol index): the path passes through 0 / 21 and comes back"""
    w = BitWriter()
    w.put(5, lens[0])
    cur = lens[0]
    for i, l in enumerate(lens):
        if defect and defect[1] == i:
            if defect[0] == "low":
                for _ in range(cur):
                    w.put(2, 3)
                for _ in range(cur):
                    w.put(2, 2)
            else:
                for _ in range(21 - cur):
                    w.put(2, 2)
                for _ in range(21 - cur):
                    w.put(2, 3)
        for _ in range(path[i] if path else 0):
            if cur < 20:
                w.put(2, 2)
                w.put(2, 3)
            else:
                w.put(2, 3)
                w.put(2, 2)
        while cur < l:
            w.put(2, 2)
            cur += 1
        while cur > l:
            w.put(2, 3)
            cur -= 1
        w.put(1, 0)
    return w


def block_bits(b, defect=None):
    """(BitWriter, crc, plain) for one block description; defect = (kind, arg) applied to this block"""
    kind, arg = defect if defect else (None, 0)
    used, syms, tables, sels = list(b["used"]), list(b["syms"]), [list(t) for t in b["tables"]], list(b["sels"])
    idx, rand = b["idx"], b["rand"]
    tt, rle, plain = bzfmt.symbols_plain(syms, used, idx, rand)
    crc = bzfmt.bzcrc(plain)
    ng = (len(syms) + 49) // 50
    if kind == "idx_too_big":
        idx = len(tt) + arg % 5
    if kind == "oversubscribed_used":
        t = sels[arg % ng]
        tables[t] = [1] * len(tables[t]) if len(tables[t]) > 2 else [1, 1]
        if len(tables[t]) <= 2:
            kind = "block_crc_bit"                       # cannot oversubscribe two symbols: fall back
    stored = crc
    if kind == "block_crc_bit":
        stored = crc ^ (1 << (arg % 32))
    w = BitWriter()
    magic = bzfmt.BLOCK_MAGIC
    if kind == "bad_block_magic":
        magic ^= 1 << (arg % 48)
    w.put(48, magic)
    w.put(32, stored)
    w.put(1, rand)
    w.put(24, idx)
    packs = [0] * 16
    for x in used:
        packs[x >> 4] |= 0x8000 >> (x & 15)
    big = 0
    for i in range(16):
        if packs[i]:
            big |= 0x8000 >> i
    if kind == "empty_bitmap":
        w.put(16, 0)
    else:
        w.put(16, big)
        for i in range(16):
            if packs[i]:
                w.put(16, packs[i])
    nt = len(tables)
    w.put(3, {"trees_0": 0, "trees_1": 1, "trees_7": 7}.get(kind, nt))
    w.put(15, 0 if kind == "zero_selectors" else len(sels))
    mtf = list(range(nt))
    for g, t in enumerate(sels):
        if kind == "selector_range" and g == arg % len(sels):
            w.put(nt + 1, ((1 << nt) - 1) << 1)          # nt ones: selects a table that does not exist
            continue
        k = mtf.index(t)
        w.put(k + 1, ((1 << k) - 1) << 1)
        mtf.pop(k)
        mtf.insert(0, t)
    for t, lens in enumerate(tables):
        d = None
        if kind in ("delta_low", "delta_high") and t == arg % nt:
            d = ("low" if kind == "delta_low" else "high", (arg // 7) % len(lens))
        w.extend(_table_bits(lens, b["paths"][t] if b.get("paths") else None, d))
    codes = [bzfmt.canon_codes(l) for l in tables]
    for i, s in enumerate(syms):
        c, l = codes[sels[i // 50]][s]
        w.put(l, c)
    return w, crc, plain


def overflow_block(level):
    """a block one byte larger than level*100000 (a single run), valid at level+1"""
    n = level * 100000 + 1
    syms, r = [], n
    while r > 0:                                         # bijective base 2: RUNA = 1, RUNB = 2
        r -= 1
        syms.append(r & 1)
        r >>= 1
    syms.append(2)
    return dict(rand=0, idx=0, used=[7], tables=[[1, 2, 2], [2, 2, 1]], sels=[0], syms=syms, paths=None)


def file_bytes(f):
    """(bytes, expected plaintext or None when invalid, info) for a file description with its defect"""
    d = f["defect"]
    kind, arg = d["kind"], d["arg"]
    out = bytearray()
    plain = bytearray()
    last_stream_at = 0
    for si, s in enumerate(f["streams"], 1):
        level = s["level"]
        w = BitWriter()
        w.put(24, 0x425A68)
        w.put(8, 0x30 + level)
        acc = 0
        blocks = list(s["blocks"])
        if kind == "overflow_level" and si == d["s"]:
            level = 1 + arg % 3
            w = BitWriter()
            w.put(24, 0x425A68)
            w.put(8, 0x30 + level)
            blocks = blocks[: d["b"] - 1] + [overflow_block(level)] + blocks[d["b"]:]
        for bi, b in enumerate(blocks, 1):
            bd = (kind, arg) if (si == d["s"] and bi == d["b"]) else None
            bw, crc, p = block_bits(b, bd)
            w.extend(bw)
            acc = bzfmt.combine(acc, crc)
            plain += p
        w.put(48, bzfmt.EOS_MAGIC)
        if kind == "stream_crc_bit" and si == d["s"]:
            acc ^= 1 << (arg % 32)
        w.put(32, acc)
        last_stream_at = len(out)
        out += w.bytes()
    data = bytes(out) + bytes(f["trailing"])
    if kind == "truncate":
        lo = last_stream_at + 4
        hi = len(out) - 1
        cut = lo + arg % max(1, hi - lo + 1)
        data = bytes(out[:cut])
    elif kind == "trailing_header":
        data = bytes(out) + b"BZh" + bytes([0x31 + arg % 9]) + bytes([arg % 251, 7, 7][: arg % 4])
    elif kind == "bad_first_header":
        bad = [b"BZh0", b"BZh:", b"BZH9", b"bZh9", b"BZ", b"", b"BZh"][arg % 7]
        data = bad + bytes(out[4:]) if len(bad) == 4 else bad
    valid = kind == "none"
    return data, (bytes(plain) if valid else None), dict(kind=kind)


def calibrate(rep, seed, n=8):
    """TLC computes bytes and plaintext of a few files itself; the serialiser above and the inspector
    (bzfmt.inspect) must agree bit for bit / byte for byte with the specification."""
    behs = tlc_files("calibrate", n, seed, maxsyms=30, workers=4, depth=2, tag="cal")[:n]
    bad = []
    for b in behs:
        f = b["file"]
        data, plain, _ = file_bytes(f)
        if list(data) != b["bytes"]:
            bad.append(("serialiser differs from BZ2.tla StreamBits", f))
            continue
        if list(plain) != b["plain"]:
            bad.append(("Plain differs from BZ2.tla", f))
            continue
        ins = bzfmt.inspect(data)
        if ins.valid != b["verdict"]["valid"]:
            bad.append(("inspector verdict %s, BZ2.tla ValidFile %s (%s)" % (ins.valid, b["verdict"]["valid"], ins.reason), f))
        elif ins.valid and list(ins.plain) != b["plain"]:
            bad.append(("inspector plaintext differs from BZ2.tla Plain", f))
        elif ins.valid and bool(ins.lbz_exception) != b["verdict"]["lbz_rejects"]:
            bad.append(("inspector exception flag %s, BZ2.tla LbzRejects %s" % (ins.lbz_exception, b["verdict"]["lbz_rejects"]), f))
    rep.add("calibration_files", len(behs))
    if bad:
        raise vlib.Infra("inspector/serialiser calibration against BZ2.tla failed: %s\n%s" % (bad[0][0], json.dumps(bad[0][1])[:1500]))
    return len(behs)


if __name__ == "__main__":
    import bz2
    rep = vlib.Report("X", "other", "quick")
    print("calibrated", calibrate(rep, 7, 6))
    behs = tlc_files("valid", 40, 3)
    ok = 0
    for b in behs:
        data, plain, _ = file_bytes(b["file"])
        ins = bzfmt.inspect(data)
        assert ins.valid == b["verdict"]["valid"], (ins.valid, ins.reason, b["verdict"])
        if ins.valid:
            assert ins.plain == plain
            ok += 1
    print("valid-mode files", len(behs), "valid", ok)
    behs = tlc_files("defect", 40, 4)
    kinds = {}
    for b in behs:
        data, plain, info = file_bytes(b["file"])
        ins = bzfmt.inspect(data)
        kinds.setdefault(info["kind"], []).append((ins.valid, ins.reason))
    for k, v in sorted(kinds.items()):
        print(k, v[:3])
