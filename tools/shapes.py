#!/usr/bin/python3
"""Model-checking configurations (one source of truth) for MCCompress / MCExpand."""
import itertools, random

CPRIO = ["collect_seq", "reorder", "transmit", "collect"]
XPRIO = ["reorder", "parse", "emit", "retrieve", "scan"]


def compress_cfg(W, sizes, cap, ultra, exact=False, tin=None, tout=None, thresh=2, prio=None):
    return dict(W=W, TotIn=tin if tin is not None else 2 * W, TotOut=tout if tout is not None else 2 * W + 2,
                Ultra=ultra, Thresh=thresh, Prio=prio or CPRIO, Sizes=list(sizes), Cap=cap, Exact=exact)


COMPRESS_QUICK = [
    ("cq_def", compress_cfg(2, [3, 2, 1], 2, False)),
    ("cq_seq", compress_cfg(2, [3, 2, 1], 2, True)),
    ("cq_def_exact", compress_cfg(2, [2, 2], 2, False, exact=True)),
    ("cq_seq_exact", compress_cfg(2, [2, 3], 2, True, exact=True)),
    ("cq_def_starved", compress_cfg(2, [3, 2, 1], 2, False, tin=2, tout=3)),
    ("cq_seq_starved", compress_cfg(2, [3, 2, 1], 2, True, tin=2, tout=3)),
    ("cq_empty", compress_cfg(2, [], 2, False)),
    ("cq_seq_empty", compress_cfg(2, [], 2, True)),
    ("cq_w1", compress_cfg(1, [3, 1], 2, False)),
    ("cq_w1_seq", compress_cfg(1, [3, 1], 2, True)),
]

COMPRESS_THOROUGH = COMPRESS_QUICK + [
    ("ct_w3_def", compress_cfg(3, [3, 2, 1, 3, 2], 2, False)),
    ("ct_w3_seq", compress_cfg(3, [3, 2, 1, 3, 2], 2, True)),
    ("ct_w3_starved", compress_cfg(3, [3, 2, 1, 3], 2, False, tin=3, tout=3)),
    ("ct_w3_seq_starved", compress_cfg(3, [3, 2, 1, 3], 2, True, tin=3, tout=3)),
    ("ct_w2_cap3", compress_cfg(2, [1, 1, 1, 2, 3], 3, True)),
    ("ct_w2_cap1", compress_cfg(2, [2, 1, 2], 1, False, tin=2, tout=3)),
]


def blk(base, end, outs=1, kind="ok", scan=True):
    return dict(base=base, end=end, outs=outs, kind=kind, scan=scan)


def cand(base, end, outs=1, ok=True):
    return dict(base=base, end=end, outs=outs, ok=ok)


def expand_cfg(W, tin, tout, G, T, TB, fin, cands=(), ultra=False, sth=1, eth=2, prio=None):
    return dict(W=W, TotIn=tin, TotOut=tout, Ultra=ultra, ScanTh=sth, EmitTh=eth, Prio=prio or XPRIO,
                G=G, T=T, TB=list(TB), Fin=dict(pos=fin[0], ok=fin[1]), Cands=list(cands))


# hand-picked shapes: (name, cfg)
EXPAND_QUICK = [
    # two true blocks (first with two output buffers), no candidate
    ("xq_plain", expand_cfg(2, 2, 3, 3, 8, [blk(1, 4, 2), blk(5, 7)], (8, True))),
    # one complete spurious candidate inside block 1's payload
    ("xq_cand_ok", expand_cfg(2, 2, 3, 3, 8, [blk(1, 4, 2), blk(5, 7)], (8, True), [cand(3, 6)])),
    # failing candidate
    ("xq_cand_fail", expand_cfg(2, 2, 3, 3, 8, [blk(1, 4, 2), blk(5, 7)], (8, True), [cand(3, 4, ok=False)])),
    # candidate that runs into end of file
    ("xq_cand_eof", expand_cfg(2, 2, 3, 3, 8, [blk(1, 4, 2), blk(5, 7)], (8, True), [cand(6, 99)])),
    # trailing garbage containing a complete decodable candidate
    ("xq_garbage", expand_cfg(2, 2, 3, 3, 11, [blk(1, 4)], (5, True), [cand(7, 9, 2)])),
    # header straddling an I/O-block boundary (scanner cannot see it)
    ("xq_straddle", expand_cfg(2, 2, 3, 3, 9, [blk(1, 3), blk(4, 7, 2, scan=False)], (8, True), [cand(6, 8)])),
    # sequential decoding fails: parse error after the first block
    ("xq_parse_err", expand_cfg(2, 2, 3, 3, 8, [blk(1, 4, 2)], (6, False), [cand(3, 5)])),
    # sequential decoding fails: second block does not decode / CRC mismatch
    ("xq_blk_err", expand_cfg(2, 2, 3, 3, 9, [blk(1, 3), blk(4, 6, kind="rerr"), blk(7, 8)], (9, True))),
    ("xq_blk_crc", expand_cfg(2, 2, 3, 3, 9, [blk(1, 3), blk(4, 6, 2, kind="crc"), blk(7, 8)], (9, True))),
    # --sequential style run: no scanning
    ("xq_ultra", expand_cfg(2, 2, 3, 3, 8, [blk(1, 4, 2), blk(5, 7)], (8, True), ultra=True)),
    # F2 shape: long block with a long candidate, two input slots
    ("xq_f2", expand_cfg(2, 2, 3, 2, 12, [blk(1, 9, 2), blk(10, 11)], (12, True), [cand(3, 11), cand(5, 6, 2)])),
    # single worker
    ("xq_w1", expand_cfg(1, 2, 3, 3, 8, [blk(1, 4, 2), blk(5, 7)], (8, True), [cand(3, 6)])),
]

# F1 shape: W=3, three output slots, four blocks and an early-completing failing candidate
EXPAND_F1 = ("x_f1", expand_cfg(3, 5, 3, 3, 14, [blk(1, 2), blk(3, 8), blk(9, 10), blk(11, 13, 2)], (14, True),
                                [cand(5, 6, ok=False)]))

EXPAND_THOROUGH_FIXED = EXPAND_QUICK + [
    EXPAND_F1,
    ("xt_w3", expand_cfg(3, 3, 4, 3, 12, [blk(1, 2), blk(3, 8, 3, scan=False), blk(9, 11, 2)], (12, True),
                         [cand(5, 6), cand(7, 10, ok=False)])),
]


def random_expand_shape(rng, idx):
    """A random small shape for the thorough tier."""
    W = rng.choice([2, 2, 3])
    G = rng.choice([2, 3])
    nblk = rng.randint(1, 3)
    pos = 1
    TB = []
    failing = rng.random() < 0.25
    for i in range(nblk):
        ln = rng.randint(1, 4)
        outs = rng.randint(1, 3)
        kind = "ok"
        if failing and i == nblk - 1:
            kind = rng.choice(["rerr", "crc"])
            if kind == "crc" and outs < 1:
                outs = 1
        base = pos
        end = base + ln
        # header lies in [base-1, base]: visible to the scanner iff it does not straddle
        scan = (base % G) != 0 or rng.random() < 0.5
        TB.append(blk(base, end, outs, kind, scan))
        pos = end + 1
    finpos = pos
    garbage = rng.choice([0, 0, 2, 4])
    T = finpos + garbage
    fin_ok = True if failing else rng.random() < 0.85
    cands = []
    for _ in range(rng.randint(0, 2)):
        b = rng.randint(2, max(2, T - 1))
        if any(c["base"] == b for c in cands) or any(t["base"] == b for t in TB):
            continue
        e = rng.choice([b + 1, b + 2, b + 4, 99])
        cands.append(cand(b, e, rng.randint(1, 2), rng.random() < 0.6))
    tin = rng.choice([2, W + 1, 4])
    tout = rng.choice([3, 4])
    return ("xr_%d" % idx, expand_cfg(W, tin, tout, G, T, TB, (finpos, fin_ok), cands, ultra=rng.random() < 0.1))
