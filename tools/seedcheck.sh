#!/bin/bash
# seedcheck.sh <seed source dir (patch.diff, demo.sh, ...)> <name>
# Confirms a seeded change against the current /repo HEAD in a scratch worktree:
#   demo passes on the clean tree; with the patch: builds, all baseline tests pass, demo fails.
set -u
src=$1; name=$2
wt=/tmp/sc/$name
log=/tmp/sc/$name.log
mkdir -p /tmp/sc
exec >"$log" 2>&1
git -C /repo worktree remove --force "$wt" 2>/dev/null
git -C /repo worktree add -q --detach "$wt" HEAD || { echo "RESULT worktree-failed"; exit 2; }
cleanup() { git -C /repo worktree remove --force "$wt" 2>/dev/null; }
trap cleanup EXIT
echo "== demo on clean tree"
( cd "$src" && timeout 900 bash ./demo.sh "$wt" ); rc_clean=$?
echo "clean demo rc=$rc_clean"
echo "== apply"
if ! git -C "$wt" apply "$src/patch.diff"; then
  git -C "$wt" apply -3 "$src/patch.diff" || { echo "RESULT apply-failed"; exit 3; }
fi
git -C "$wt" diff HEAD > "/tmp/sc/$name.rebased.diff"
echo "== build + ctest"
( cd "$wt" && cmake -G Ninja -B _build -DCMAKE_BUILD_TYPE=RelWithDebInfo >/dev/null && cmake --build _build 2>&1 | tail -2 && ctest --test-dir _build -j6 --timeout 900 2>&1 | tail -3 ) | tee "/tmp/sc/$name.ctest"
pass=$(grep -c "100% tests passed, 0 tests failed out of 1111" "/tmp/sc/$name.ctest")
echo "== demo on changed tree"
( cd "$src" && timeout 900 bash ./demo.sh "$wt" ); rc_changed=$?
echo "changed demo rc=$rc_changed"
echo "RESULT name=$name clean_rc=$rc_clean ctest_pass=$pass changed_rc=$rc_changed"
