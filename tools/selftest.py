#!/usr/bin/python3
"""Binding self-test (not a registered check): records traces of the current /repo build, shows that TLC
accepts them, then damages each in one place - a logged scalar, a dropped event, two events swapped, a cleared
monitor bit - and shows that the trace specification rejects every damaged copy.  A trace specification that
accepted them would only be checking length.  Usage: tools/selftest.py"""
import bz2, json, os, random, sys
sys.path.insert(0, os.path.dirname(os.path.abspath(__file__)))
import vlib, campaign


def lines_of(path):
    return [l for l in open(path).read().splitlines() if l.strip()]


def write(path, lines):
    with open(path, "w") as f:
        f.write("\n".join(lines) + "\n")


def mutate(lines, kind, rng):
    ls = list(lines)
    idx = [i for i, l in enumerate(ls) if json.loads(l)["e"] not in ("Start", "Uninit", "CopyUninit")]
    if kind == "scalar":
        cand = [i for i in idx if '"os":' in ls[i]]
        i = rng.choice(cand)
        o = json.loads(ls[i])
        o["os"] += 1
        ls[i] = json.dumps(o, separators=(",", ":"))
    elif kind == "drop":
        cand = [i for i in idx if json.loads(ls[i])["e"] in ("Reorder", "SinkPop", "CopyWritten", "Written")]
        del ls[rng.choice(cand)]
    elif kind == "swap":
        # two consecutive events of the same thread (events of different threads may commute)
        cand = [i for i in idx[:-1] if json.loads(ls[i])["tid"] == json.loads(ls[i + 1])["tid"] and json.loads(ls[i + 1])["e"] != json.loads(ls[i])["e"]
                and json.loads(ls[i])["e"].endswith(("Begin", "Push", "Take", "Avail"))]
        i = rng.choice(cand)
        ls[i], ls[i + 1] = ls[i + 1], ls[i]
    elif kind == "monitor":
        cand = [i for i in idx if json.loads(ls[i]).get("mon", 0) == 1]
        i = rng.choice(cand)
        o = json.loads(ls[i])
        o["mon"] = 0
        ls[i] = json.dumps(o, separators=(",", ":"))
    return ls


def main():
    rng = random.Random(7)
    exe = vlib.build_impl()
    d = vlib.subdir("selftest")
    text = bytes(rng.choice(b"abcdefgh \n") for _ in range(260000))
    runs = [("TraceCompress", campaign.traced_run(exe, ["-1", "-n", "3"], "c", stdin=text, env={"VERIF_SCHED_SEED": 3})),
            ("TraceExpand", campaign.traced_run(exe, ["-d", "-n", "3"], "d", stdin=bz2.compress(text, 1), env={"VERIF_SCHED_SEED": 4, "VERIF_IN_GRANUL": 8192})),
            ("TraceCopy", campaign.traced_run(exe, ["-cdf"], "cp", stdin=text, env={"VERIF_SCHED_SEED": 5}, kind="copy"))]
    bad = 0
    for spec, t in runs:
        base = lines_of(t.trace)
        p = os.path.join(d, spec + ".ndjson")
        write(p, base)
        v = vlib.validate_trace(spec, p, tag="st_" + spec)
        print("%-14s recorded trace (%d events): %s" % (spec, len(base), "accepted" if v.accepted else "REJECTED: %s" % v.reason))
        bad += not v.accepted
        for kind in ("scalar", "drop", "swap", "monitor"):
            try:
                m = mutate(base, kind, rng)
            except IndexError:
                print("%-14s   %-8s n/a (no such event in this trace)" % (spec, kind))
                continue
            write(p, m)
            v = vlib.validate_trace(spec, p, tag="st_%s_%s" % (spec, kind))
            print("%-14s   %-8s %s" % (spec, kind, "rejected (%s)" % v.reason if not v.accepted else "ACCEPTED - the specification does not bind this"))
            bad += v.accepted
    print("selftest: %s" % ("ok" if not bad else "%d unexpected verdicts" % bad))
    return 1 if bad else 0


if __name__ == "__main__":
    sys.exit(main())
