#!/usr/bin/python3
"""Writes /verif/MANIFEST.json from the table below (one source of truth)."""
import json, os, subprocess

VERIF = os.path.dirname(os.path.dirname(os.path.abspath(__file__)))

# property -> (level, technique, text, note, design_ref)
TECH_MC = "TLC model checking of the TLA+ pipeline specs (MCCompress/MCExpand) + TLC trace validation of hooked runs of the real binary"
NOTE_MC = ("Exhaustive only within the constants of tools/shapes.py; real schedules/configurations are sampled "
           "(seeded).  Trusted: TLC, the hook layer (events logged under the protecting monitor), libbz2 and "
           "tools/bzfmt.py as independent decoders, tools/bzcraft.py for planted-pattern files.")
CLAIMED = {
    "C01": ("model_checking", TECH_MC,
            "TLC: every input unit reaches the writer exactly once and in order for every interleaving, both "
            "modes (MCCompress), and the decompressor writes exactly the sequential decoding (MCExpand).  Real "
            "round-trip sessions over the input families of the property x levels x modes x worker counts with "
            "every compress/decompress trace validated against the specs (per-block weight/size/CRC identity "
            "from encoding to hand-over).  The transform arithmetic is covered by the sampled sessions only.",
            NOTE_MC, "DESIGN.md 3 (C01)"),
    "C03": ("model_checking", TECH_MC,
            "TLC: the block sequence handed to the writer is schedule independent (MCCompress).  Real runs: each "
            "input compressed under many (workers incl. 38-64, schedule seed, stdin/pipe/FILE/-c, short reads, "
            "short writes, slow producer) combinations must give byte-identical output; traces validated.",
            NOTE_MC, "DESIGN.md 3 (C03)"),
    "C04": ("model_checking",
            "TLC proof-by-enumeration that Rle.tla (transcribed collect()) equals the declarative greedy rule + replay of every TLC behaviour through the real collect() + calibrated rule oracle on real outputs",
            "Rle.tla's machine is checked equal to the longest-prefix rule for all inputs over small alphabets, "
            "all capacities and all splits into buffer calls (plus runs around 259/518); the same behaviours are "
            "replayed 1:1 through the working tree's collect() at tiny capacities (exhaustive over the bounds). "
            "Process level: block boundaries recovered from real outputs must equal the rule in both modes.",
            "In-process leg exhaustive over the bounds in tools/inproc.py; process-level leg sampled.  Trusted: "
            "TLC, harness/replay_rle.c (field reads only), tools/bzfmt.py.", "DESIGN.md 3 (C04)"),
    "C09": ("model_checking", TECH_MC + " + Emit.tla behaviours replayed through the real emit()",
            "TLC: Out = SeqOut for every interleaving and I/O-block placement (MCExpand); Emit.tla checked equal "
            "to the declarative run-length decoding for every suspension point and replayed through the real "
            "emit().  Real runs: each input decompressed under many (workers, seed, input block size, output "
            "buffer size, fragmentation, stdout/file/-c/-t) combinations must agree on status and bytes.",
            NOTE_MC + "  Known finding (partial output of a failing run) listed in known-findings.jsonl.",
            "DESIGN.md 3 (C09)"),
    "C10": ("model_checking", TECH_MC,
            "TLC: with spurious candidates of every kind in the shape, only the sequential decoding reaches the "
            "writer and failure happens exactly when it fails (MCExpand).  Real runs: planted-pattern files "
            "(nested failing / long / complete valid candidates, patterns straddling I/O blocks, whole blocks and "
            "streams in trailing garbage) under tiny I/O blocks, starved slots and perturbed schedules; output "
            "must be the sequential decoding; traces validated (a buffer reaches the writer only at the position "
            "the parser confirmed next); discard-path counters guard against vacuity.",
            NOTE_MC, "DESIGN.md 3 (C10)"),
    "C11": ("model_checking", TECH_MC,
            "Every interleaving of the monitor, reader, writer and workers is explored by TLC for the small "
            "worker/slot/shape constants of tools/shapes.py (deadlock, queue capacity, unit/slot conservation, "
            "stream-order hand-over, termination under fairness), with the thresholds and task priorities read "
            "from the binary's own Init events.  The same specification validates, event by event, traces "
            "recorded from perturbed runs of the real binary in the starved-slot / tiny-I/O-block regime the "
            "model explores; hangs, crashes and wrong results of those runs are violations.  Queues.tla: the ring-buffer deque "
            "and the binary-heap priority queue the pipeline queues are made of are checked against sequence / bag semantics for "
            "every operation sequence up to a bound and replayed through the real macros and functions.",
            NOTE_MC, "DESIGN.md 2.1-2.2, 3 (C11), 11.2"),
    "C02": ("other", "specification-calibrated strict inspector on every stream the binary writes (BZ2.tla via tools/bzfmt.py) + libbz2",
            "Every compressed stream of the sessions is parsed by an independent strict inspector that is calibrated "
            "against spec/BZ2.tla in the same run (TLC computes bytes, CRCs and plaintext of sample files itself); the "
            "clauses of C02 are evaluated literally on the recovered fields, incl. completeness of unused tables and "
            "the selector bound; libbz2 decodes the stream to the input.",
            "Sampled inputs; the inspector and libbz2 are trusted after calibration.", "DESIGN.md 3 (C02)"),
    "C05": ("other", "TLC-generated single-defect and valid files (spec/BZ2.tla, simulation mode) replayed into the binary + inspector-judged mutations",
            "BZ2.tla draws files with exactly one defect from the property's list (and valid ones); they and field-aware / "
            "byte-level mutations of real streams are decoded by the real binary under several configurations (incl. input "
            "blocks of one 32-bit word).  Rule: exit 0 implies the reference says valid and the bytes equal the reference "
            "decoding.  Parser.tla stimuli (header/trailer grammar, bit flips, truncations) are replayed through parse().",
            "Not exhaustive (seeded sampling).  Reference = BZ2.tla verdicts / the inspector calibrated against BZ2.tla.",
            "DESIGN.md 3 (C05)"),
    "C06": ("other", "TLC-generated valid files varying every legal degree of freedom (spec/BZ2.tla) + libbz2 output + legal extremes, replayed into the binary; spec/Imtf.tla (inverse MTF of decode.c) model-checked and replayed through mtf_one()",
            "Valid files from BZ2.tla (2-6 tables incl. malformed unused ones, 20-bit codes, delta detours, arbitrary and "
            "surplus selectors, randomised blocks, any index, bit offsets, multi-level concatenations, trailing data), libbz2 "
            "output at levels 1-9, the repository's specimens and extremes built in the block-sorted domain (18001 groups, "
            "32767 selectors, randomised > 617 bytes) must be accepted with exactly the specified plaintext; only the two "
            "documented exceptions may be rejected.  Imtf.tla: the sliding-lists inverse move-to-front (fast path, general path, "
            "pool rebuild) equals the naive list for every call sequence (small constants, exhaustive) and along seeded call "
            "sequences with the code's constants, whose behaviours are replayed through the real mtf_one() across rebuilds.",
            "Not exhaustive.  Expected bytes from the calibrated serialiser/inspector, cross-checked with libbz2.", "DESIGN.md 3 (C06)"),
    "C07": ("fault_enumeration", "enumeration of truncation points / spec-derived defects / inspector-judged corruptions replayed into the binary",
            "Every truncation point of a set of valid files (exhaustive per file), BZ2.tla single-defect files, corruptions "
            "judged invalid by the calibrated inspector, empty input and wrong magics: exit status 1 with a diagnostic, no "
            "signal, no hang; as FILE operand no output file is left.",
            "Exhaustive only over the truncation points of the listed files.", "DESIGN.md 3 (C07)"),
    "C13": ("model_checking", TECH_MC + " with allocation accounting and VmHWM",
            "TLC: live encoders / decoders / output buffers / input buffers never exceed W / W / TotOut / TotIn and no "
            "unord record becomes unreachable (NoLeak).  Traces: at every event live encoders/decoders <= held work units "
            "and live output buffers <= held slots, peaks within totals and nothing live at Uninit.  Peak RSS (VmHWM) of a "
            "4x larger input (concatenated bombs, incompressible data, many tiny streams) stays within 1.25x + 16 MiB of "
            "the saturating base input and within 1.5x + 32 MiB of the linear bound built from the logged totals.",
            NOTE_MC + "  RSS legs are measurements with stated tolerances.", "DESIGN.md 3 (C13)"),
    "C14": ("model_checking", "TLC check of every scanner-table entry against the KMP definition (Scan.tla) + TLC-generated stimuli replayed through scan()",
            "All 96 + 12544 entries of src/scantab.h are compared by TLC with the definition of the KMP automaton of the "
            "48-bit pattern (the inductive step of the automaton invariant: all inputs).  TLC-generated bit streams "
            "(pattern at every bit offset, near misses, two occurrences, cut by the block end, starting offsets, buffered "
            "bits, skips) are replayed through the real scan() and judged by the contract.",
            "Exhaustive over the tables; the routine is covered on the finite stimulus family of tools/inproc.py.",
            "DESIGN.md 3 (C14)"),
    "C15": ("fault_enumeration", "exhaustive single-bit flips of every stored CRC field (located by the calibrated inspector) replayed into the binary + Parser.tla (parse() transcribed, checked against the stream grammar) replayed through the real parse() at every suspension point",
            "For multi-block, multi-stream files (BZ2.tla-generated and real encoder output) every bit of every stored block "
            "and stream CRC is flipped in turn; the binary must exit 1 for worker counts 1, 2, 4, small input blocks and "
            "input blocks of one / two 32-bit words.  Parser.tla: TLC checks machine = grammar for every shape x {as is, "
            "every non-payload bit flip, every truncation}; each stimulus is replayed through parse() under chunkings that "
            "suspend it at every word and exactly at stream ends (return codes, CRCs, digits, garbage counts compared).",
            "Exhaustive per listed file / per shape of tools/inproc.py parser_shapes.", "DESIGN.md 3 (C15), 11.2"),
    "C20": ("other", "TLC-evaluated optimality oracle (Prefix.tla: package-merge proved equal to brute force) on tables recovered from real outputs and from assign_codes()",
            "Prefix.tla: TLC proves package-merge = minimum over all complete bounded-length codes on a small domain; the same "
            "operator judges every used table recovered from what the binary writes (cost equals the optimum for the table's own "
            "maximal length, complete, <= 20 bits) and the lengths assign_codes() produces for frequency vectors of every "
            "alphabet size, incl. vectors that force the 20-bit limit.",
            "Sampled inputs; per-table counts from the inspector's own decoding.", "DESIGN.md 3 (C20)"),
    "C16": ("fault_enumeration", "TLC model of the per-operand system-call sequence with one fault (Crash.tla) + every model behaviour replayed at every concrete call position of the real binary (LD_PRELOAD injection) + TLC trace validation of the main thread's recorded path (TraceCrash.tla)",
            "Crash.tla: for -k and not -k, every step x {call failure, SIGINT, SIGTERM, SIGKILL} is explored; TLC checks the "
            "A/B dichotomy, that status 0/4 implies a complete output, and that SIGKILL never leaves the input gone without a "
            "complete output.  Every model behaviour is replayed at every open/read/write/fchown/fchmod/futimens/close/unlink "
            "call position of compress / decompress runs of the real binary; files, exit status / signal and diagnostic must "
            "be one of the outcomes the model allows for that injection (faults: call failure, failing write with SIGPIPE / SIGXFSZ, "
            "SIGINT / SIGTERM before and after every call, SIGKILL; also on a damaged input, where cleanup() must remove the "
            "partial output).  The path each run records (cli / sti window with the actual signal mask, halt, cleanup, "
            "terminate, bailout) is validated against TraceCrash.tla together with the end state the driver observed.",
            "Exhaustive over the call positions of the six scenario runs (compress, decompress, damaged input; each with "
            "and without -k); faults are injected at the libc boundary; -f is not modelled here (C17).", "DESIGN.md 3 (C16), 11"),
    "C17": ("model_checking", "TLC enumeration of operand scenarios with the documented outcome (FileOps.tla) replayed against the real binary in scratch directories",
            "FileOps.tla gives, for every combination of mode, options {k,c,t,f}, operand kind (regular, hard link, symlink, "
            "directory, fifo, missing), suffix, pre-existing output and permission class, the outcome: skipped with warning, "
            "output name, metadata, removal of the input, exit status; TLC checks NeverClobbers / SkipsNonRegular on the "
            "model and every scenario is built on disk and run through the real binary; names, contents, mode bits, "
            "nanosecond timestamps, link counts and status are compared.",
            "Exhaustive over the scenario constants of tools/checks/c17.py.  Ownership transfer (fchown) needs root "
            "and is exercised only for the same owner.", "DESIGN.md 3 (C17)"),
    "C18": ("model_checking", "TLC enumeration of operand lists (FileOps.tla: effect of a list = fold of single-operand effects, status = max) replayed against the real binary",
            "Operand lists mixing processed, skipped, hard-linked, missing and corrupt operands in every order, per mode and "
            "option set: the real run must show per operand exactly the single-operand effect, stop at the first fatal "
            "operand, and exit with 0 / 4 / 1 as the fold says; hooked multi-operand runs are validated as a sequence of "
            "Start..Uninit segments without resetting what init() does not reset.",
            "Exhaustive over the list constants of tools/checks/c18.py.", "DESIGN.md 3 (C18)"),
    "C19": ("model_checking", "TLC model checking of the copy pipeline (MCCopy) + TLC trace validation of hooked -cdf runs + byte identity",
            "MCCopy: reader, copy task and writer for all interleavings: output = input, slots conserved, termination; "
            "CopyInd.tla: an inductive invariant (conservation, exactly-once SIGUSR2, no deadlock) discharged by Apalache for "
            "EVERY input length, with MCCopy checked by TLC to refine CopyInd.  "
            "Real -cdf runs on non-bzip2 inputs (empty, 1-4 bytes, magic-prefix look-alikes, multi-megabyte) under "
            "perturbed schedules, short reads/writes and tiny buffers: output bytes identical, exit 0, traces validated "
            "against TraceCopy.",
            NOTE_MC, "DESIGN.md 3 (C19)"),
    "C22": ("model_checking", "TLC enumeration of command lines with the documented interpretation (Cli.tla) replayed against the real binary",
            "Cli.tla is an executable model of the documented rules (invocation names, -d/-z last wins, -c/-t conflict, "
            "clustered options, -n N / -nN, --, ignored compatibility options, LBZIP2/BZIP2/BZIP tokens before the command "
            "line).  TLC enumerates token sequences x invocation names x env placement and prints the expected observable "
            "behaviour; each is run through the real binary (symlink of that name) and compared: what happened to the "
            "operand, where output went, level digit, exit status.",
            "Exhaustive over the token sets of tools/checks/c22.py.", "DESIGN.md 3 (C22)"),
    "C12": ("model_checking", "TLC model checking of the locking protocol (Locks.tla: threads as programs over acquire/release/wait and the hooked transitions with read/write sets) + TLC trace validation of the (role, event, monitors held) signature on runs recorded with a ThreadSanitizer-built binary",
            "Locks.tla: every interleaving of reader, writer, two workers (one the primary thread) and main for compress, "
            "expand and copy mode: never two threads simultaneously at conflicting accesses, every access outside the "
            "single-threaded phases holds the variable's monitor (documented exception: reader's read of tail_offs), lock "
            "order sched > source/sink, no deadlock.  TraceLocks.tla accepts recorded traces only if every event was "
            "emitted by a thread of the role and holding exactly the monitors of a model transition.  The recorder is "
            "built with ThreadSanitizer; any report is an access outside the discipline.",
            "Model exhaustive for the five threads of Locks.tla; real schedules/inputs sampled.  Accesses the hooks do not "
            "see are decided only by the ThreadSanitizer leg (auxiliary observer, outside the TLA+ family; DESIGN.md 3 (C12)).",
            "DESIGN.md 3 (C12)"),
    "C21": ("fault_enumeration", "TLC model checking of the error protocol with liveness (Fail.tla) + every model behaviour replayed at every read/write call position of real filter runs (LD_PRELOAD injection) + kernel-made faults",
            "Fail.tla: reader / writer / workers / main in sigsuspend with one failing call (EIO, ENOSPC, EPIPE, EFBIG; SIGPIPE / "
            "SIGXFSZ default or ignored), bailout() as three interleaved steps: never exit 0 after a failure, documented "
            "status or signal, diagnostic iff not EPIPE/EFBIG, termination under fairness.  Each behaviour is replayed at "
            "every read / write position of compress (both modes), decompress and -cdf runs; plus early-closed pipes, "
            "/dev/full, RLIMIT_FSIZE and a directory as stdin.",
            "Exhaustive over the call positions of the listed scenario runs; 'promptly' = within 20 s wall time.",
            "DESIGN.md 3 (C21)"),
}

NOT_YET = "check not built yet in this round; planned in DESIGN.md section 3"
NOT_APPLICABLE = {
    "C08": "memory-safety / undefined-behaviour at the level of individual machine operations is not observable by a "
           "TLA+ specification or by traces of scheduler/codec transitions; the brief restricts this study to that "
           "technique (DESIGN.md section 6)",
}


def main():
    ids = [json.loads(l)["id"] for l in open(os.path.join(VERIF, "properties.jsonl"))]
    commits = subprocess.run(["git", "-C", "/repo", "log", "--format=%h %s", "500858a..HEAD"],
                             capture_output=True, text=True).stdout.splitlines()
    hooks = [c.split()[0] for c in commits if c.split(" ", 1)[1].startswith("verif:")]
    m = {
        "version": 1,
        "setup_cmd": "tools/setup.sh",
        "hooks": {
            "guard": "KJN_LBZIP2_VERIF",
            "enable": "checks copy /repo/src to scratch and compile it with gcc -O1 -g -pthread -DKJN_LBZIP2_VERIF "
                      "(tools/vlib.py build_impl); asserts stay enabled",
            "baseline_off_cmd": "tools/baseline_off.sh",
            "source_commits": hooks,
            "add_only": True,
        },
        "engines": [
            {"name": "tlc", "path": "/opt/veriftools/tla/tla2tools.jar",
             "serves_properties": sorted(CLAIMED), "kind_free_text": "TLA+ model checker (model checking, behaviour generation, trace validation)"},
            {"name": "apalache", "path": "/opt/veriftools/apalache/bin/apalache-mc",
             "serves_properties": ["C19"], "kind_free_text": "symbolic model checker for TLA+ (inductive invariant of spec/CopyInd.tla)"},
        ],
        "checks": [],
        "not_applicable": [],
        "notes": "Every check is `tools/check <id> --tier quick|thorough`; exit 2 (no VIOLATION line) means the "
                 "checker itself failed or could not decide.  Fixed defects are listed in known-findings.jsonl.",
    }
    for pid in ids:
        if pid in CLAIMED:
            level, tech, text, note, ref = CLAIMED[pid]
            m["checks"].append({
                "property_id": pid,
                "quick_cmd": "tools/check %s --tier quick" % pid,
                "thorough_cmd": "tools/check %s --tier thorough" % pid,
                "evidence_file": "/verif/evidence/%s.json" % pid,
                "replay_cmd_template": "tools/check %s --replay {path}" % pid,
                "engine": "tlc",
                "level_claimed": {"category": level, "text": text, "design_ref": ref},
                "level_note": note,
                "technique": tech,
            })
        else:
            m["not_applicable"].append({"property_id": pid, "reason": NOT_APPLICABLE.get(pid, NOT_YET)})
    with open(os.path.join(VERIF, "MANIFEST.json"), "w") as f:
        json.dump(m, f, indent=1)
    print("claimed:", sorted(CLAIMED), "not claimed:", [x["property_id"] for x in m["not_applicable"]])


if __name__ == "__main__":
    main()
