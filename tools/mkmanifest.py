#!/usr/bin/python3
"""Writes /verif/MANIFEST.json from the table below (one source of truth)."""
import json, os, subprocess

VERIF = os.path.dirname(os.path.dirname(os.path.abspath(__file__)))

# property -> (level, technique, text, note, design_ref)
CLAIMED = {
    "C11": ("model_checking",
            "TLC model checking of MCCompress/MCExpand (TLA+) + TLC trace validation of hooked runs",
            "Every interleaving of the monitor, reader, writer and workers is explored by TLC for the small "
            "worker/slot/shape constants of tools/shapes.py (deadlock, queue capacity, unit/slot conservation, "
            "stream-order hand-over, termination under fairness), with the thresholds and task priorities read "
            "from the binary's own Init events.  The same specification validates, event by event, traces "
            "recorded from perturbed runs of the real binary in the starved-slot / tiny-I/O-block regime the "
            "model explores; hangs, crashes and wrong results of those runs are violations.",
            "Exhaustive only within the stated constants; real schedules are sampled.  Trusted: TLC, the hook "
            "layer (events logged under the protecting monitor), tools/bzcraft.py for the planted-pattern files.",
            "DESIGN.md 2.1-2.2, 3 (C11)"),
}

NOT_YET = "check not built yet in this round; planned in DESIGN.md section 3"
NOT_APPLICABLE = {
    "C08": "memory-safety / undefined-behaviour at the level of individual machine operations is not observable by a "
           "TLA+ specification or by traces of scheduler/codec transitions; the brief restricts this study to that "
           "technique (DESIGN.md section 6)",
}


def main():
    ids = [json.loads(l)["id"] for l in open(os.path.join(VERIF, "properties.jsonl"))]
    commits = subprocess.run(["git", "-C", "/repo", "log", "--format=%h %s", "500858a..HEAD"],
                             capture_output=True, text=True).stdout.splitlines()
    hooks = [c.split()[0] for c in commits if c.split(" ", 1)[1].startswith("verif:")]
    m = {
        "version": 1,
        "setup_cmd": "tools/setup.sh",
        "hooks": {
            "guard": "KJN_LBZIP2_VERIF",
            "enable": "checks copy /repo/src to scratch and compile it with gcc -O1 -g -pthread -DKJN_LBZIP2_VERIF "
                      "(tools/vlib.py build_impl); asserts stay enabled",
            "baseline_off_cmd": "tools/baseline_off.sh",
            "source_commits": hooks,
            "add_only": True,
        },
        "engines": [
            {"name": "tlc", "path": "/opt/veriftools/tla/tla2tools.jar",
             "serves_properties": sorted(CLAIMED), "kind_free_text": "TLA+ model checker (model checking, behaviour generation, trace validation)"},
        ],
        "checks": [],
        "not_applicable": [],
        "notes": "Every check is `tools/check <id> --tier quick|thorough`; exit 2 (no VIOLATION line) means the "
                 "checker itself failed or could not decide.  Fixed defects are listed in known-findings.jsonl.",
    }
    for pid in ids:
        if pid in CLAIMED:
            level, tech, text, note, ref = CLAIMED[pid]
            m["checks"].append({
                "property_id": pid,
                "quick_cmd": "tools/check %s --tier quick" % pid,
                "thorough_cmd": "tools/check %s --tier thorough" % pid,
                "evidence_file": "/verif/evidence/%s.json" % pid,
                "replay_cmd_template": "tools/check %s --replay {path}" % pid,
                "engine": "tlc",
                "level_claimed": {"category": level, "text": text, "design_ref": ref},
                "level_note": note,
                "technique": tech,
            })
        else:
            m["not_applicable"].append({"property_id": pid, "reason": NOT_APPLICABLE.get(pid, NOT_YET)})
    with open(os.path.join(VERIF, "MANIFEST.json"), "w") as f:
        json.dump(m, f, indent=1)
    print("claimed:", sorted(CLAIMED), "not claimed:", [x["property_id"] for x in m["not_applicable"]])


if __name__ == "__main__":
    main()
