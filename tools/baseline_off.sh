#!/bin/bash
# Builds /repo with the hooks guard OFF in a scratch build directory and runs the pinned
# test suite (same command as BASELINE.json: ctest -j8 --timeout 900).
set -e
B=$(mktemp -d "${VERIF_SCRATCH:-/var/tmp}/verif-baseline.XXXXXX")
trap 'rm -rf "$B"' EXIT
cmake -G Ninja -S /repo -B "$B" -DCMAKE_BUILD_TYPE=RelWithDebInfo -DCMAKE_C_FLAGS=-Wno-error >/dev/null
cmake --build "$B" >/dev/null
mkdir -p /verif/evidence
ctest --test-dir "$B" -j8 --timeout 900 --output-junit /verif/evidence/baseline_off.junit.xml | tail -5
