"""C16 - interrupted or failed runs never lose data.
(M) spec/Crash.tla: the system calls of one FILE operand with any single call failing, SIGINT / SIGTERM at
any point (blocked between cli() and sti() except while work() waits in sigsuspend()) or SIGKILL at any
point; TLC checks in every terminal state the dichotomy (input unchanged and no output, or output complete
and closed), that status 0/4 is only reported with the output complete and that SIGKILL never leaves the
input missing without a complete output.  (G) every behaviour of the model is replayed against the real
binary at EVERY concrete call position of its kind (learned from a dry run): harness/preload_io.c makes the
k-th open/read/write/fchown/fchmod/futimens/close/unlink fail or sends the signal right there, and the
resulting files and exit status must be the ones the model gives for that injection."""
import bz2, json, os, random, re, shutil, signal
import vlib, campaign, inproc, crashtrace

LEVEL = "fault_enumeration"
SIGNO = {"sigint": signal.SIGINT, "sigterm": signal.SIGTERM, "kill": signal.SIGKILL}


def model(rep):
    exp = {}
    for keep in (False, True):
        for damaged in (False, True):
            behs, r = inproc.gen("Crash", dict(Keep=keep, Damaged=damaged), ["Dichotomy", "StatusHonest", "KillSafe", "Export"],
                                 "crash%d%d" % (keep, damaged), workers=1, timeout=300)
            if behs is None:
                raise vlib.Infra("Crash.tla violates its own invariants:\n" + r.text[-1500:])
            rep.add("states", r.distinct)
            rep.add("transitions", r.generated)
            for b in behs:
                exp.setdefault((keep, damaged, b["at"], b["fault"]), []).append(b)
    return exp


def run_one(exe, shim, scen, keep, env_extra, idx):
    """returns (result class, inp, out, stderr)"""
    d = os.path.join(vlib.subdir("c16"), "r%d" % idx)
    os.makedirs(d)
    try:
        iname = "f.bz2" if scen["dec"] else "f"
        oname = "f" if scen["dec"] else "f.bz2"
        with open(os.path.join(d, iname), "wb") as f:
            f.write(scen["input"])
        mark = os.path.join(d, ".fired")
        trace = os.path.join(vlib.subdir("c16tr"), "t%d.ndjson" % idx)
        env = {"LD_PRELOAD": shim, "VERIF_IO_MARK": mark, "VERIF_TRACE": trace}
        env.update(env_extra)
        args = [exe, "-n", "2"] + (["-d"] if scen["dec"] else ["-1"]) + (["-k"] if keep else []) + scen.get("extra", []) + [iname]
        r = vlib.run(args, env=env, cwd=d, timeout=30)
        if r.timed_out:
            res = "hang"
        elif r.rc == 0:
            res = "exit0"
        elif r.rc == 4:
            res = "exit4"
        elif r.rc == 1:
            res = "exit1"
        elif r.rc == -signal.SIGKILL:
            res = "killed"
        elif r.rc is not None and r.rc < 0:
            res = "signal%d" % -r.rc
        else:
            res = "exit%s" % r.rc
        ip = os.path.join(d, iname)
        inp = "present" if os.path.exists(ip) and open(ip, "rb").read() == scen["input"] else ("damaged" if os.path.exists(ip) else "gone")
        op = os.path.join(d, oname)
        if not os.path.exists(op):
            out = "absent"
        else:
            data = open(op, "rb").read()
            try:
                ok = (data == scen["plain"]) if scen["dec"] else (bz2.decompress(data) == scen["plain"])
            except Exception:
                ok = False
            out = "complete" if ok else "partial"
        fired = os.path.exists(mark)
        extra = [n for n in os.listdir(d) if n not in (iname, oname, ".fired")]
        return res, inp, out, r.err, extra, fired, trace
    finally:
        shutil.rmtree(d, ignore_errors=True)


def validate_paths(rep, results):
    units = [crashtrace.unit("%s%s, %s" % (scen["name"], " -k" if keep else "", what), keep, f, trace, res, inp, out)
             for scen, keep, st, f, what, (res, inp, out, err, extra, fired, trace) in results]
    return crashtrace.validate_units(rep, units)


def run(rep, tier, replay):
    rng = random.Random(vlib.seed())
    exe = vlib.build_impl()
    shim = vlib.build_shim()
    exp = model(rep)
    plain = rng.randbytes(230000)
    comp = bz2.compress(plain, 1)
    bad = bytearray(comp)
    bad[len(bad) // 2] ^= 0x10
    scens = [dict(name="compress", dec=False, input=plain, plain=plain, damaged=False),
             dict(name="decompress", dec=True, input=comp, plain=plain, damaged=False),
             # a data error found by a worker: bailout() -> cleanup() removes the partial output
             dict(name="decompress-damaged", dec=True, input=bytes(bad), plain=plain, damaged=True),
             # the same with -v: informational lines on stderr must not change what happens on the error path
             dict(name="decompress-damaged-v", dec=True, input=bytes(bad), plain=plain, damaged=True, extra=["-v"], keeps=(False,))]
    jobs = []
    for scen in scens:
        for keep in scen.get("keeps", (False, True)):
            # dry run: which calls does this run make, in which order?
            log = os.path.join(vlib.subdir("c16"), "log_%s_%d" % (scen["name"], keep))
            if os.path.exists(log):
                os.unlink(log)
            res = run_one(exe, shim, scen, keep, {"VERIF_IO_LOG": log}, rng.randrange(10 ** 9))
            want = ("exit1", "present", "absent") if scen["damaged"] else ("exit0", "present" if keep else "gone", "complete")
            if tuple(res[:3]) != want:
                # without any injected fault the run must already end in the state the scenario stands for
                rep.violation("%s%s without any fault: process result %s, input %s, output %s (expected %s / %s / %s)" %
                              ((scen["name"], " -k" if keep else "") + tuple(res[:3]) + want),
                              dict(kind="fault", cls="crash-consistency", scenario=scen["name"], keep=keep, injection="none",
                                   observed=dict(result=res[0], inp=res[1], out=res[2])))
                continue
            calls = [l.split()[0] for l in open(log)]
            cnt = {}
            seq = []
            for c in calls:
                cnt[c] = cnt.get(c, 0) + 1
                seq.append((c, cnt[c]))
            # map calls to model steps
            def step_of(op, k):
                if op == "open":
                    return "open_in" if k == 1 else "open_out"
                if op in ("read", "write"):
                    return "work"
                if op == "close":
                    return "close_out" if k == 1 else "close_in"
                if op == "unlink":
                    return "unlink_out" if scen["damaged"] else "unlink_in"
                return op
            for op, k in seq:
                st = step_of(op, k)
                faults = []
                if op == "read":
                    faults = [("fail", 5)]
                elif op == "write":
                    faults = [("fail", 5), ("fail", 28), ("failsig", 27), ("failsig", 32)]      # EIO, ENOSPC, EFBIG + SIGXFSZ, EPIPE + SIGPIPE
                else:
                    faults = [("fail", 13 if op in ("open", "unlink") else 5)]
                for f, errno_ in faults:
                    jobs.append((scen, keep, st, f, {"VERIF_IO_FAIL": "%s:%d:%d" % (op, k, errno_)}, "%s#%d fails with errno %d" % (op, k, errno_)))
                for f in ("sigint", "sigterm", "kill"):
                    jobs.append((scen, keep, st, f, {"VERIF_IO_SIG": "%s:%d:%d" % (op, k, SIGNO[f])}, "%s before %s#%d" % (f, op, k)))
                # the points right AFTER each call (before whatever the program does next, e.g. cli() after the
                # input is open, the start of work() after the output is created, sti() after the unlink)
                nxt = {"open_in": ["cli"], "open_out": ["work"], "work": ["work", "unlink_out" if scen["damaged"] else "fchown"], "fchown": ["fchmod"],
                       "fchmod": ["futimens"], "futimens": ["close_out"], "close_out": ["unlink_in"], "unlink_in": ["sti"], "close_in": ["exit"],
                       "unlink_out": []}.get(st)
                if nxt is None:
                    raise vlib.Infra("unexpected call %s#%d in scenario %s" % (op, k, scen["name"]))
                for f in (("sigint", "sigterm", "kill") if nxt else ()):
                    jobs.append((scen, keep, nxt, f, {"VERIF_IO_SIG": "%s:%d:%d:after" % (op, k, SIGNO[f])}, "%s after %s#%d" % (f, op, k)))
    rep.cov["injection_points"] = len(jobs)

    def go(ij):
        i, (scen, keep, st, f, env, what) = ij
        return (scen, keep, st, f, what, run_one(exe, shim, scen, keep, env, i))
    results = campaign.parallel(go, list(enumerate(jobs)), par=12)
    seen = set()
    for scen, keep, st, f, what, (res, inp, out, err, extra, fired, trace) in results:
        rep.add("evaluations")
        seen.add((scen["name"], keep, what))
        alts = [b for x in (st if isinstance(st, list) else [st]) for b in exp.get((keep, scen["damaged"], x, f), [])]
        if not fired:
            if not scen["damaged"]:
                raise vlib.Infra("%s: injection point %s not reached although the dry run made that call" % (scen["name"], what))
            rep.add("positions_not_reached")       # how far reader and writer get before the data error is found varies
            continue
        if not alts:
            raise vlib.Infra("no model behaviour for %s" % ((keep, st, f),))

        def judge(e):
            want = e["result"]
            if f in ("sigint", "sigterm") and want == "signal":
                want = "signal%d" % SIGNO[f]
            if want == "sigfail":
                want = "signal%d" % (signal.SIGXFSZ if "errno 27" in what else signal.SIGPIPE)
            if res == "hang":
                return "hang"
            if res != want:
                return "process result %s, model says %s" % (res, want)
            if inp != e["inp"]:
                return "input is %s, model says %s" % (inp, e["inp"])
            if e["fault"] == "kill":
                if not (inp == "present" or out == "complete"):
                    return "after SIGKILL the input is %s and the output %s" % (inp, out)
            elif out != e["out"]:
                return "output is %s, model says %s" % (out, e["out"])
            elif extra:
                return "stray files %s" % extra
            elif want in ("exit1", "exit4") and not err:
                return "no diagnostic"
            elif want.startswith("signal") and f == "failsig" and err and "-v" not in scen.get("extra", []):
                return "diagnostic %r although the error is EPIPE / EFBIG" % err[:80]
            return None
        whys = [judge(e) for e in alts]
        if scen["damaged"] and f == "kill" and (res, inp, out) == ("exit1", "present", "absent"):
            whys.append(None)                      # the process was already exiting when SIGKILL was sent
        why = None if None in whys else whys[0]
        e = alts[0]
        if why:
            rep.violation("%s%s, %s: %s" % (scen["name"], " -k" if keep else "", what, why),
                          dict(kind="fault", cls="crash-consistency", scenario=scen["name"], keep=keep, injection=what, step=st, fault=f,
                               observed=dict(result=res, inp=inp, out=out), model=e))
            if len(rep.violations) >= 8:
                break
    # ---- (V) the main thread's recorded path of every run against spec/TraceCrash.tla
    if len(rep.violations) < 8:
        for why, what in validate_paths(rep, results):
            rep.violation("recorded path is not a behaviour of TraceCrash.tla: %s [%s]" % (why, what),
                          dict(kind="trace", cls="main-path", reason=why, injection=what))
    rep.cov["distinct_nontrivial"] = len(seen)
    rep.cov["rule"] = "one case per (scenario, -k, call position, fault); all distinct; non-trivial = the injection point was reached (every position comes from a dry run of the same scenario)"
    rep.cov["exhaustive"] = True
    rep.cov["exhaustive_note"] = "every open/read/write/fchown/fchmod/futimens/close/unlink call position of the six scenario runs (compress, decompress, decompress of a damaged file; each with and without -k) x {failure, SIGINT, SIGTERM, SIGKILL; before and after the call}"
    rep.sample({"injection": results[0][4], "scenario": results[0][0]["name"], "observed": list(results[0][5][:3])})
    rep.sample({"injection": results[-1][4], "scenario": results[-1][0]["name"], "observed": list(results[-1][5][:3])})
    rep.assumptions += ["faults are injected at the libc call boundary by harness/preload_io.c (lstat/fstat are not intercepted)",
                        "-f (pre-unlink of the output) is not part of the model"]
