"""C02 - compressed output is a strictly well-formed bzip2 stream.
Every stream the real binary writes in the compression sessions (input families of C01 plus inputs aimed at
the encoder's special paths: tiny blocks that get a dummy second table, alphabets of every small size,
level-capacity boundaries, 900000-symbol blocks) is read by the independent strict inspector
(tools/bzfmt.py, calibrated against spec/BZ2.tla in the same run) and the clauses of the property are
evaluated literally on its fields: header digit = level; every block <= level*100000 run-length encoded
bytes; block and stream CRCs correct; no randomised block; primary index inside the block; 2-6 tables, ALL
of them (used or not) complete with lengths 1-20 reached by delta steps inside 1-20; <= 18002 selectors;
libbz2 decodes the stream to the input."""
import bz2, random
import vlib, sched, inputs, bzfmt, bzgen

LEVEL = "other"


def strict_remarks(ins, level):
    out = []
    for si, s in enumerate(ins.streams):
        if s["level"] != level:
            out.append("stream %d: header digit %d, level %d" % (si, s["level"], level))
    for i, b in enumerate(ins.blocks):
        if b.rand:
            out.append("block %d is randomised" % i)
        if len(b.rle) > level * 100000:
            out.append("block %d holds %d run-length encoded bytes" % (i, len(b.rle)))
        if b.idx >= len(b.tt):
            out.append("block %d: primary index %d outside the block" % (i, b.idx))
        if not (2 <= b.ntrees <= 6):
            out.append("block %d: %d tables" % (i, b.ntrees))
        for t, lens in enumerate(b.tables):
            if any(l < 1 or l > 20 for l in lens):
                out.append("block %d table %d: code length outside 1-20" % (i, t))
            elif bzfmt.kraft(lens) != 1 << 20:
                out.append("block %d table %d (%s) is not a complete prefix code" % (i, t, "used" if t in b.selectors[:b.groups] else "unused"))
        if b.nsel > 18002:
            out.append("block %d: %d selectors" % (i, b.nsel))
        if b.nsel != b.groups:
            pass
    return out


def run(rep, tier, replay):
    rng = random.Random(vlib.seed())
    exe = vlib.build_impl()
    bzgen.calibrate(rep, vlib.seed() + 9, 4 if tier == "quick" else 12)
    fam = inputs.families(rng, tier)
    # encoder special paths
    for n in (1, 2, 3, 10, 50, 149, 150, 151, 300):
        fam.append(("tiny_%d" % n, bytes(rng.randrange(1 + n % 7) for _ in range(n))))
    for a in range(1, 9):
        fam.append(("alpha_%d" % a, bytes(rng.randrange(a) * 31 % 256 for _ in range(400))))
    fam.append(("alpha_256", bytes(range(256)) * 8))
    fam.append(("full_900k_symbols", bzfmt.unrle(bzfmt.ibwt(bytes(rng.randrange(256) for _ in range(30000)), 0)) * 35))
    # completely full blocks of incompressible data at level 9 (18000-18001 real groups: the selector bound, byte alignment)
    for k in range(3 if tier == "quick" else 8):
        fam.append(("full_900k_random_%d" % k, rng.randbytes(1000000)))
    cases = []
    for name, data in fam:
        combos = [(rng.randrange(1, 10), rng.random() < 0.5)] if tier == "quick" else [(l, u) for l in range(1, 10) for u in (False, True)]
        if name.startswith("cap1") or name.startswith("chunk"):
            combos = [(1, False), (1, True)]
        if name.startswith("full_900k"):
            combos = [(9, False)]
        for level, ultra in combos:
            W = rng.choice([1, 2, 4])
            c = sched.Case("%s|c -%d u=%d W=%d" % (name, level, ultra, W), ["-%d" % level, "-n", str(W)] + (["-u"] if ultra else []),
                           data, {"VERIF_SCHED_SEED": rng.randrange(50)}, kind="compress", timeout=180)
            c.level = level
            cases.append(c)
    # many blocks in flight on many workers at once (encoder state that must not be shared between threads)
    stress = (rng.randbytes(1 << 20) + bytes(1 << 18)) * 16
    for i in range(6 if tier == "quick" else 40):
        c = sched.Case("stress20m|c -1 W=16 run=%d" % i, ["-1", "-n", "16"], stress, {"VERIF_SCHED_SEED": i} if i % 2 else {}, kind="compress", timeout=300)
        c.level = 1
        cases.append(c)
    runs = sched.run_cases(exe, cases, par=6)
    bad = sched.judge(rep, runs, "C02")
    sched.report_runs(rep, "C02", exe, bad, "run")
    nblocks = ntables = 0
    seen = set()
    for t in runs:
        if t.run.rc != 0 or t.run.timed_out:
            continue
        rep.add("evaluations")
        z = t.run.out
        remarks = []
        if t.case.label.startswith("stress"):
            try:
                if bz2.decompress(z) != t.case.data:
                    remarks.append("libbz2 decodes it to different bytes")
            except Exception as e:
                remarks.append("libbz2 rejects it: %s" % e)
            seen.add(vlib.digest(z))
            if remarks:
                rep.violation("%s: %s" % (t.label, "; ".join(remarks)), sched.save_stimulus("C02", "s%d" % len(rep.violations), t, dict(cls="not-well-formed", remarks=remarks)))
            continue
        ins = bzfmt.inspect(z)
        if not ins.valid:
            remarks.append("not a valid bzip2 file: %s" % ins.reason)
        else:
            remarks += strict_remarks(ins, t.case.level)
            if ins.trailing:
                remarks.append("trailing bytes after the stream")
            if ins.plain != t.case.data:
                remarks.append("inspector decodes it to different bytes")
            nblocks += len(ins.blocks)
            ntables += sum(len(b.tables) for b in ins.blocks)
        try:
            if bz2.decompress(z) != t.case.data:
                remarks.append("libbz2 decodes it to different bytes")
        except Exception as e:
            remarks.append("libbz2 rejects it: %s" % e)
        seen.add(vlib.digest(z))
        if remarks:
            rep.violation("%s: %s" % (t.label, "; ".join(remarks[:3])),
                          sched.save_stimulus("C02", "v%d" % len(rep.violations), t, dict(cls="not-well-formed", remarks=remarks[:10])))
            if len(rep.violations) >= 8:
                break
    rep.cov["blocks_inspected"], rep.cov["tables_inspected"] = nblocks, ntables
    rep.cov["distinct_nontrivial"] = len(seen)
    rep.cov["rule"] = "one case per compressed stream written by the binary; distinct by content hash of the stream; all non-trivial"
    rep.cov["explanation"] = "trace validation of inspected outputs against the format specification (BZ2.tla via the calibrated inspector) plus libbz2 as the reference decoder"
    rep.sample({"stream": runs[0].label, "bytes": len(runs[0].run.out)})
    rep.assumptions += ["tools/bzfmt.py agrees with BZ2.tla on the calibration sample of this run", "libbz2 (python bz2) is the reference bzip2 library"]
