"""C03 - compressed bytes depend only on the input, the level and --sequential.
(M) MCCompress: the block sequence handed to the writer is the same for every interleaving
(OrderedOutput / Termination).  (V) each input is compressed under many (worker count, schedule seed,
input path, read fragmentation, short writes, output mode) combinations by the real binary; all outputs
of one (input, level, mode) group must be byte-identical and every recorded trace must be a behaviour
of Compress (chunking of the input as delivered by the reader is part of the trace)."""
import bz2, random
import vlib, campaign, sched, shapes, inputs

LEVEL = "model_checking"


def run(rep, tier, replay):
    rng = random.Random(vlib.seed())
    exe = vlib.build_impl()
    pol = sched.policy_of(exe)
    ctab = [t for t in shapes.COMPRESS_QUICK if t[0] in ("cq_def", "cq_seq", "cq_seq_exact", "cq_def_starved")]
    if tier == "thorough":
        ctab = shapes.COMPRESS_THOROUGH
    mbad = sched.mc_legs(rep, [("compress", ctab)], pol)
    fam = inputs.families(rng, tier)
    pick = ["empty", "one", "runs_259", "fib", "cap1_lit_1", "chunk_in_run", "rand300k"] if tier == "quick" else [n for n, _ in fam]
    fam = [(n, d) for n, d in fam if n in pick]
    big = rng.randbytes(2600000)                      # several chunks at level 9 (high worker counts)
    cases, groups = [], {}
    nseeds = 3 if tier == "quick" else 8
    for name, data in fam + [("big9", big)]:
        for level, ultra in ((1, False), (1, True)) if name != "big9" else ((9, False), (9, True)):
            gkey = (name, level, ultra)
            base = ["-%d" % level] + (["-u"] if ultra else [])
            variants = []
            workers = [1, 2, 3, 4, 8, 16] if name != "big9" else [1, 4, 38, 40, 64]
            for W in workers:
                for s in range(nseeds if name != "big9" else 1):
                    variants.append((W, s, "stdin", None, {}))
            variants.append((3, 0, "pipe", None, {}))
            variants.append((2, 1, "stdin", {"VERIF_IO_SEED": rng.randrange(1000)}, {}))     # short reads and short writes
            variants.append((5, 2, "pipe", {"VERIF_IO_SEED": rng.randrange(1000)}, {}))
            variants.append((2, 3, "file", None, {}))
            variants.append((4, 4, "cfile", None, {}))
            variants.append((3, 5, "stdin", None, {"VERIF_DELAY": "read:0=3000"}))            # slow producer
            for W, s, mode, shim, extra in variants:
                env = {"VERIF_SCHED_SEED": s}
                env.update(extra)
                c = sched.Case("%s|c -%d u=%d W=%d seed=%d %s%s" % (name, level, ultra, W, s, mode, " shim" if shim else ""),
                               base + ["-n", str(W)], data, env, kind="compress", mode=mode, shim=shim,
                               timeout=120)
                c.group = gkey
                cases.append(c)
    runs = sched.run_cases(exe, cases, par=8)
    bad = sched.judge(rep, runs, "C03")
    sched.report_runs(rep, "C03", exe, bad, "run")
    for t in runs:
        groups.setdefault(t.case.group, []).append(t)
    ngroups = 0
    for gkey, ts in groups.items():
        ok = [t for t in ts if t.run.rc == 0 and not t.run.timed_out]
        if not ok:
            continue
        ngroups += 1
        ref = ok[0].run.out
        diff = [t for t in ok if t.run.out != ref]
        if diff:
            # majority = reference
            from collections import Counter
            maj = Counter(vlib.digest(t.run.out) for t in ok).most_common(1)[0][0]
            odd = [t for t in ok if vlib.digest(t.run.out) != maj][0]
            same = [t for t in ok if vlib.digest(t.run.out) == maj][0]
            obj = sched.save_stimulus("C03", "grp%d" % ngroups, odd, dict(cls="nondeterministic-output", group=list(map(str, gkey)),
                                      differs_from=same.label, digests=sorted(set(vlib.digest(t.run.out) for t in ok))))
            rep.violation("compressed bytes differ within one (input, level, mode) group: %s vs %s" % (odd.label, same.label), obj)
        try:
            if bz2.decompress(ref) != ts[0].case.data:
                obj = sched.save_stimulus("C03", "rt%d" % ngroups, ok[0], dict(cls="wrong-result"))
                rep.violation("output does not decode to the input (libbz2): %s" % ok[0].label, obj)
        except Exception as e:
            obj = sched.save_stimulus("C03", "rt%d" % ngroups, ok[0], dict(cls="wrong-result", error=str(e)))
            rep.violation("output rejected by libbz2 (%s): %s" % (e, ok[0].label), obj)
    rep.cov["groups"] = ngroups
    rej = campaign.validate(runs, rep, strict=True)
    pol_rej = sched.report_rejections(rep, "C03", rej, "trace")
    rep.cov.setdefault("traces_validated_against_impl", 0)
    rep.sample({"group": list(map(str, list(groups)[0])), "runs": len(list(groups.values())[0])})
    rep.sample({"run": runs[0].label, "events": runs[0].events, "digest": vlib.digest(runs[0].run.out)})
    rep.cov["exhaustive"] = False
    rep.cov["policy_rejections"] = len(pol_rej)
    rep.cov["unconfirmed_model_counterexample"] = [m[0] for m in mbad]
    rep.assumptions += ["runs of the same build are compared with each other only, never with stored bytes",
                        "short reads/writes come from harness/preload_io.c (legal partial transfers)"]
    if rep.violations or rep.known_hits:
        return
    if mbad:
        raise vlib.Infra("model counterexample(s) not reproduced on the binary: %s" % [m[0] for m in mbad])
    if pol_rej:
        raise vlib.Infra("scheduling policy of the code differs from the model-checked one: %s" % pol_rej[0][1])
