"""C10 - speculative block discovery never influences the output.
(M) MCExpand over shapes with spurious candidates: OutputIsSequential / FailsOnlyIfSeqFails /
Termination for every interleaving; (V) planted-pattern files (tools/bzcraft.py) decoded by the real
binary under tiny I/O blocks, starved slots and perturbed schedules: output must equal the sequential
decoding, failure exactly when it fails, and every trace must be a behaviour of Expand (a buffer reaches
the writer only at the position the parser confirmed next)."""
import random
import vlib, campaign, sched, shapes

LEVEL = "model_checking"
NEED = ["scan_unique", "reorder_bogus", "parse_took_complete", "parse_discarded_stale"]


def run(rep, tier, replay):
    rng = random.Random(vlib.seed())
    exe = vlib.build_impl()
    pol = sched.policy_of(exe)
    names = ("xq_cand_ok", "xq_cand_fail", "xq_cand_eof", "xq_garbage", "xq_straddle", "xq_blk_crc")
    xtab = [t for t in shapes.EXPAND_QUICK if t[0] in names]
    if tier == "thorough":
        xtab = shapes.EXPAND_THOROUGH_FIXED + [shapes.random_expand_shape(rng, i) for i in range(16)]
    mbad = sched.mc_legs(rep, [("expand", xtab)], pol, timeout=600 if tier == "thorough" else 900)
    for name, c, r in mbad:
        rep.sample({"model_counterexample": name, "violated": r.violated, "temporal": r.temporal, "shape": c})
    files = sched.planted_files(rng)
    seeds = range(5 if tier == "quick" else 20)
    configs = ((3, 4, 3, 4096), (2, 2, 3, 8192), (3, 3, 4, 2048), (4, 16, 64, 65536), (1, 2, 3, 4096))
    cases = sched.expand_cases(files, seeds, configs)
    runs = sched.run_cases(exe, cases)
    bad = sched.judge(rep, runs, "C10")
    sched.report_runs(rep, "C10", exe, bad, "run")
    rej = campaign.validate(runs, rep, strict=True)
    pol_rej = sched.report_rejections(rep, "C10", rej, "trace")
    counts = sched.event_counts(runs)
    rep.cov["path_counts"] = counts
    rep.cov.setdefault("traces_validated_against_impl", 0)
    rep.sample({"file": files[0][0], "bytes": len(files[0][1]), "runs": len(seeds) * len(configs)})
    rep.sample({"run": runs[0].label, "events": runs[0].events})
    rep.cov["exhaustive"] = False
    rep.assumptions += ["model constants as in tools/shapes.py", "planted files come from tools/bzcraft.py; expected bytes from its own Plain()"]
    rep.cov["unconfirmed_model_counterexample"] = [m[0] for m in mbad]
    rep.cov["policy_rejections"] = len(pol_rej)
    missing = [k for k in NEED if not counts.get(k)]
    if rep.violations or rep.known_hits:
        return
    if missing:
        raise vlib.Infra("vacuous campaign: discard paths never exercised: %s" % missing)
    if mbad:
        raise vlib.Infra("model counterexample(s) not reproduced on the binary: %s" % [m[0] for m in mbad])
    if pol_rej:
        raise vlib.Infra("scheduling policy of the code differs from the model-checked one: %s" % pol_rej[0][1])
