"""C01 - compression round-trips exactly.
(M) MCCompress (every input unit reaches the writer exactly once, in order, for every interleaving,
both modes) and MCExpand (Out = SeqOut).  (V) round-trip sessions of the real binary over the input
families the property names x levels x {default, --sequential} x worker counts x perturbation seeds:
both runs exit 0 with empty stderr and the bytes come back; every compress and decompress trace is
validated by TLC against Compress / Expand (per-block weight, size and CRC logged when a block is
encoded are re-checked when it is handed to the writer).  The BWT/MTF/Huffman arithmetic between the
run-length legs is only covered by the sampled sessions (see DESIGN.md section 5)."""
import bz2, random
import vlib, campaign, sched, shapes, inputs

LEVEL = "model_checking"


def run(rep, tier, replay):
    rng = random.Random(vlib.seed())
    exe = vlib.build_impl()
    # (M+G) spec/Queues.tla: the ring-buffer deque and the binary-heap priority queue every pipeline queue is made of, transcribed
    # and checked against sequence / bag semantics for every operation sequence; each replayed through the real macros / functions
    import inproc as _inproc, os as _os
    for why, beh in _inproc.queues_leg(rep, _os.path.join(_os.path.dirname(exe), "src"), tier):
        rep.violation(why, dict(kind="inproc", cls="queue-replay", harness="replay_queues", stimulus=beh))
    pol = sched.policy_of(exe)
    ctab = [t for t in shapes.COMPRESS_QUICK if t[0] in ("cq_def", "cq_seq", "cq_w1", "cq_w1_seq", "cq_empty", "cq_seq_empty")]
    xtab = [t for t in shapes.EXPAND_QUICK if t[0] in ("xq_plain", "xq_w1")]
    if tier == "thorough":
        ctab, xtab = shapes.COMPRESS_THOROUGH, shapes.EXPAND_QUICK
    mbad = sched.mc_legs(rep, [("compress", ctab), ("expand", xtab)], pol)
    # (G) the run-length front end in-process: Rle.tla behaviours (machine = greedy rule) replayed through collect()
    # for every split of the input into buffer calls at tiny capacities (the full leg is C04's)
    import inproc, os
    for line, beh in inproc.rle_leg(rep, os.path.join(os.path.dirname(exe), "src"), tier, mini=(tier == "quick")):
        rep.violation("collect() deviates from Rle.tla: %s" % line, dict(kind="inproc", cls="rle-replay", harness="replay_rle", behaviour=beh, failure=line))
    fam = inputs.families(rng, tier)
    cases = []
    levels = range(1, 10)
    for name, data in fam:
        combos = []
        if tier == "quick":
            for _ in range(3):
                combos.append((rng.choice(levels), rng.random() < 0.5, rng.choice([1, 2, 3, 5, 16])))
            if len(data) < 5000:
                combos += [(l, u, rng.choice([1, 2, 4])) for l in (1, 5, 9) for u in (False, True)]
        else:
            combos = [(l, u, rng.choice([1, 2, 3, 5, 8, 16])) for l in levels for u in (False, True)]
        for level, ultra, W in combos:
            env = {"VERIF_SCHED_SEED": rng.randrange(100)}
            c = sched.Case("%s|c -%d u=%d W=%d" % (name, level, ultra, W), ["-%d" % level, "-n", str(W)] + (["-u"] if ultra else []),
                           data, env, kind="compress", timeout=180)
            cases.append(c)
    cruns = sched.run_cases(exe, cases, par=8)
    bad = sched.judge(rep, cruns, "C01")
    dcases = []
    for t in cruns:
        if t.run.rc == 0 and not t.run.timed_out:
            W = rng.choice([1, 2, 3, 5, 16])
            env = {"VERIF_SCHED_SEED": rng.randrange(100)}
            if len(t.run.out) < 20000:
                env["VERIF_IN_GRANUL"] = rng.choice([64, 256, 4096])
            dc = sched.Case(t.label + " |d W=%d %s" % (W, env), ["-d", "-n", str(W)], t.run.out, env,
                            expect_out=t.case.data, kind="expand", timeout=180)
            dcases.append(dc)
    druns = sched.run_cases(exe, dcases, par=8)
    bad += sched.judge(rep, druns, "C01")
    sched.report_runs(rep, "C01", exe, bad, "run")
    rep.cov["round_trips"] = len(druns)
    # ---- several FILE operands in one invocation (per-operand state such as the stream CRC must be reset)
    import os
    wd = vlib.subdir("c01ops")
    pick = [(n, d) for n, d in fam if 0 < len(d) < 400000][:6] + [(n, d) for n, d in fam if len(d) == 0][:1]
    for k, (level, ultra, W) in enumerate([(9, False, 2), (1, True, 3), (5, False, 1)]):
        d = os.path.join(wd, "r%d" % k)
        os.makedirs(d)
        names = []
        for i, (n, data) in enumerate(pick):
            with open(os.path.join(d, "f%d" % i), "wb") as f:
                f.write(data)
            names.append("f%d" % i)
        r1 = vlib.run([exe, "-%d" % level, "-n", str(W), "-k"] + (["-u"] if ultra else []) + names, cwd=d, timeout=300)
        r2 = vlib.run([exe, "-d", "-n", str(W), "-c"] + [n + ".bz2" for n in names], cwd=d, timeout=300)
        rep.add("impl_runs", 2)
        want = b"".join(data for _, data in pick)
        why = None
        if r1.rc != 0 or r1.err:
            why = "compressing %d operands in one invocation: exit status %s, stderr %r" % (len(names), r1.rc, r1.err[:150])
        elif r2.rc != 0 or r2.err:
            why = "decompressing the %d files written by one invocation: exit status %s, stderr %r" % (len(names), r2.rc, r2.err[:150])
        elif r2.out != want:
            why = "files written by one invocation do not decompress to the operands"
        else:
            for i, (n, data) in enumerate(pick):
                try:
                    ok = bz2.decompress(open(os.path.join(d, "f%d.bz2" % i), "rb").read()) == data
                except Exception:
                    ok = False
                if not ok:
                    why = "libbz2 does not decode operand %d (%s) of a %d-operand invocation to its input" % (i + 1, n, len(names))
                    break
        if why:
            rep.violation("%s [-%d%s -n %d]" % (why, level, " --sequential" if ultra else "", W),
                          dict(kind="run", cls="multi-operand-round-trip", level=level, sequential=ultra, workers=W, inputs=[n for n, _ in pick]))
    # libbz2 as a second opinion on what was written
    for t in cruns[: (40 if tier == "quick" else 400)]:
        if t.run.rc == 0:
            try:
                ok = bz2.decompress(t.run.out) == t.case.data
            except Exception:
                ok = False
            if not ok:
                rep.violation("libbz2 does not decode lbzip2's output to the input: %s" % t.label,
                              sched.save_stimulus("C01", "bz%d" % len(rep.violations), t, dict(cls="wrong-result")))
    rej = campaign.validate(cruns + druns, rep, strict=True)
    pol_rej = sched.report_rejections(rep, "C01", rej, "trace")
    rep.cov.setdefault("traces_validated_against_impl", 0)
    rep.sample({"round_trip": druns[0].label if druns else None})
    rep.sample({"inputs": [n for n, _ in fam]})
    rep.cov["exhaustive"] = False
    rep.cov["policy_rejections"] = len(pol_rej)
    rep.cov["unconfirmed_model_counterexample"] = [m[0] for m in mbad]
    rep.assumptions += ["transform arithmetic (BWT, MTF, Huffman, CRC polynomial) is covered by sampled sessions only"]
    if rep.violations or rep.known_hits:
        return
    if mbad:
        raise vlib.Infra("model counterexample(s) not reproduced on the binary: %s" % [m[0] for m in mbad])
    if pol_rej:
        raise vlib.Infra("scheduling policy of the code differs from the model-checked one: %s" % pol_rej[0][1])
