"""C13 - peak memory is bounded by the worker count.
(M) MCCompress / MCExpand: the number of live encoders, decoders, output buffers and input buffers never
exceeds W / W / TotOut / TotIn in any reachable state (conservation invariants) and no unord record
becomes unreachable (NoLeak), for every shape including blocks with many output buffers.  (V) hooked runs:
allocation events of the five buffer classes are checked against the same bounds with the totals the run
itself logs (at every event: live encoders/decoders <= held work units, live output buffers <= held slots;
at Uninit: peaks within totals, nothing live - including unord records); peak RSS (ru_maxrss logged at
Uninit) over inputs of growing size - concatenated decompression bombs, incompressible data, many tiny
streams - must not grow with the input and must stay under a linear function of the worker count."""
import bz2, json, os, random
import vlib, campaign, sched, shapes

LEVEL = "model_checking"
MiB = 1 << 20


def rss_of(t):
    rss = None
    if t.trace and os.path.exists(t.trace):
        for line in open(t.trace):
            if '"e":"Uninit"' in line:
                rss = json.loads(line).get("hwm", -1)      # VmHWM in KiB
    return rss


def run(rep, tier, replay):
    rng = random.Random(vlib.seed())
    exe = vlib.build_impl()
    pol = sched.policy_of(exe)
    ctab = [t for t in shapes.COMPRESS_QUICK if t[0] in ("cq_def", "cq_seq_starved")]
    xtab = [t for t in shapes.EXPAND_QUICK if t[0] in ("xq_cand_ok", "xq_garbage", "xq_f2")]
    if tier == "thorough":
        ctab, xtab = shapes.COMPRESS_THOROUGH, shapes.EXPAND_THOROUGH_FIXED
    import time
    t0 = time.time()
    mbad = sched.mc_legs(rep, [("compress", ctab), ("expand", xtab)], pol, timeout=600 if tier == "thorough" else 900)
    rep.cov["t_mc"] = round(time.time() - t0, 1)
    # ---- allocation discipline on planted-pattern files (leak check on)
    files = sched.planted_files(rng, full=False)
    cases = sched.expand_cases(files, range(4 if tier == "quick" else 12), ((3, 4, 3, 4096), (2, 2, 3, 8192), (4, 16, 64, 65536)))
    for name, data in (("r40k", rng.randbytes(40000)), ("z60k", b"\0" * 60000)):
        for s in range(3):
            for u in (False, True):
                cases.append(sched.Case("%s|c u=%d seed=%d" % (name, u, s), ["-1", "-n", "3"] + (["-u"] if u else []), data,
                                        {"VERIF_SCHED_SEED": s, "VERIF_IN_GRANUL": 4096}, kind="compress"))
    runs = sched.run_cases(exe, cases)
    bad = sched.judge(rep, runs, "C13")
    sched.report_runs(rep, "C13", exe, bad, "run")
    rep.cov["t_runs"] = round(time.time() - t0, 1)
    rej = campaign.validate(runs, rep, strict=False, leak=True)
    rep.cov["t_validate"] = round(time.time() - t0, 1)
    sched.report_rejections(rep, "C13", rej, "trace")
    # ---- peak RSS versus input size
    bomb = open(os.path.join(vlib.REPO, "tests", "ch255.bz2"), "rb").read()           # 47 MB from a few bytes
    tiny = bz2.compress(b"tiny stream\n")
    sizes = (1, 4)                                   # base input (already saturates every slot) and 4x of it
    series = {
        "bomb": [bomb * (16 * k) for k in sizes],
        "tiny_streams": [tiny * (20000 * k) for k in sizes],
    }
    rnd = rng.randbytes(4 * MiB)
    series_c = {"random": [rnd * k for k in sizes], "zeros": [b"\0" * (16 * MiB * k) for k in sizes]}
    rcases = []
    for W in (2, 4):
        for name, datas in series.items():
            for k, d in zip(sizes, datas):
                c = sched.Case("%s x%d|d W=%d" % (name, k, W), ["-d", "-n", str(W)], d, {}, kind="expand", timeout=300, outnull=True)
                c.series, c.k, c.W = ("d", name, W), k, W
                rcases.append(c)
        # a consumer slower than the workers: every output slot fills (the regime in which oversized buffers show)
        for k, d in zip(sizes, series["bomb"]):
            c = sched.Case("bomb slow writer x%d|d W=%d" % (k, W), ["-d", "-n", str(W)], d, {"VERIF_DELAY": "write:0=4000"}, kind="expand", timeout=600, outnull=True)
            c.series, c.k, c.W = ("d", "bomb_slow_writer", W), k, W
            rcases.append(c)
        for name, datas in series_c.items():
            for k, d in zip(sizes, datas):
                for u in (False, True):
                    c = sched.Case("%s x%d|c u=%d W=%d" % (name, k, u, W), ["-1", "-n", str(W)] + (["-u"] if u else []), d, {}, kind="compress", timeout=300, outnull=True)
                    c.series, c.k, c.W = ("c", name, W, u), k, W
                    rcases.append(c)
    d = vlib.subdir("rssout")

    def go(c):
        return sched.run_cases(exe, [c])[0]
    # output goes to a pipe that python drains; run a few at a time to keep the machine quiet
    rruns = campaign.parallel(go, rcases, par=4)
    bad = sched.judge(rep, rruns, "C13")
    sched.report_runs(rep, "C13", exe, bad, "rss")
    # the Start events of these (otherwise unvalidated, very long) runs still have to pass the specification's bounds on
    # slot totals and buffer sizes (TStart of TraceExpand / TraceCompress): the runs use the program's own defaults
    for spec, kind in (("TraceExpand", "expand"), ("TraceCompress", "compress")):
        starts = []
        for t in rruns:
            if t.case.kind == kind and t.trace and os.path.exists(t.trace):
                starts += [l.strip() for l in open(t.trace) if '"e":"Start"' in l][:1]
        if starts:
            p = os.path.join(vlib.subdir("c13starts"), kind + ".ndjson")
            with open(p, "w") as f:
                f.write("\n".join(starts) + "\n")
            v = vlib.validate_trace(spec, p, tag="c13st_" + kind)
            rep.add("start_events_validated", len(starts))
            if not v.accepted:
                rep.violation("default configuration outside the specification's memory bounds: %s" % v.reason,
                              dict(kind="trace", cls="start-bounds", spec=spec, reason=v.reason, events=starts[:4]))
    by = {}
    for t in rruns:
        t.rss = rss_of(t)
        by.setdefault(t.case.series, {})[t.case.k] = t
    table = {}
    for key, ts in by.items():
        if not all(k in ts and ts[k].rss for k in sizes):
            continue
        r1, r16 = ts[1].rss * 1024, ts[sizes[-1]].rss * 1024
        table[" ".join(map(str, key))] = [ts[k].rss for k in sizes]
        rep.add("rss_series")
        W = ts[sizes[-1]].case.W
        # linear bound from the totals the run logs itself (Start event)
        start = next(json.loads(l) for l in open(ts[sizes[-1]].trace) if '"e":"Start"' in l)
        if key[0] == "d":
            lin = W * (4 * 900000 + 70000) + start["tout"] * start["og"] + start["tin"] * start["ig"]
        else:
            enc = 4 * (start["bs"] * 100000 + 50) + start["bs"] * 100000 + 2 * MiB
            lin = W * enc + start["tout"] * (start["bs"] * 100000 * 1.2) + start["tin"] * start["ig"]
        # how many slots a run really fills at the same time depends on the schedule (measured: 51-90 MiB for the same input),
        # so the 4x run is compared with the larger of the base run and the saturation level computed from the logged totals
        # with a slow consumer every slot is full and the allocator's own overhead (per-thread arenas, 900 kB chunks below the
        # dynamic mmap threshold) is at its largest: measured plateau 160-190 MiB for W = 4, independent of the input size
        slow = "slow_writer" in key[1]
        g_mul, g_add, b_mul, b_add = (1.5, 32 * MiB, 3.0, 64 * MiB) if slow else (1.25, 16 * MiB, 1.5, 32 * MiB)
        if r16 > max(r1, lin) * g_mul + g_add:
            rep.violation("peak RSS grows with the input: %s: %d KiB at 1x, %d KiB at 4x (saturation level %d KiB)" %
                          (key, ts[1].rss, ts[sizes[-1]].rss, int(lin / 1024)),
                          dict(kind="rss", cls="rss-growth", series=list(map(str, key)), rss_kib=[ts[k].rss for k in sizes]))
        if r16 > b_mul * lin + b_add:
            rep.violation("peak RSS above the linear bound: %s: %d KiB, bound %d KiB" % (key, ts[sizes[-1]].rss, int((b_mul * lin + b_add) / 1024)),
                          dict(kind="rss", cls="rss-bound", series=list(map(str, key)), rss_kib=ts[sizes[-1]].rss))
    rep.cov["rss_kib_by_series"] = table
    rep.cov.setdefault("traces_validated_against_impl", 0)
    rep.sample({"rss_series": list(table.items())[:3]})
    rep.cov["exhaustive"] = False
    rep.cov["unconfirmed_model_counterexample"] = [m[0] for m in mbad]
    rep.assumptions += ["ru_maxrss is read by the hook at Uninit; tolerances: the 4x input may use 1.25x + 16 MiB of max(base run, saturation level computed from the logged slot totals), and 1.5x + 32 MiB of that level (slow-consumer series: 1.5x + 32 MiB and 3x + 64 MiB, allocator overhead is largest there); leaks proper are decided by the heap check at Uninit"]
    if mbad and not rep.violations:
        raise vlib.Infra("model counterexample(s) not reproduced on the binary: %s" % [m[0] for m in mbad])
