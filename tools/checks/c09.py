"""C09 - decompression result is independent of configuration and schedule.
(M) MCExpand: Out = SeqOut for every interleaving and placement of I/O-block boundaries.
(V) each input is decompressed by the real binary under many (worker count, schedule seed, input block
size, output buffer size, read fragmentation, output mode) combinations; within one input's group the
exit status is the same and - where output exists - the bytes are the same; traces are validated against
Expand.  (G) the in-process legs (every output-buffer size sequence through emit(), every word split
through retrieve()/parse()) are part of tools/checks/c09.py's thorough tier via harness/replay_emit.c."""
import bz2, glob, os, random
import vlib, campaign, sched, shapes, inputs, bzcraft, inproc

LEVEL = "model_checking"


def corpus(rng, tier):
    """(name, bytes): valid and invalid compressed inputs"""
    out = []
    skip = {"ch255.bz2", "idx899999.bz2"} if tier == "quick" else set()
    for f in sorted(glob.glob(os.path.join(vlib.REPO, "tests", "*.bz2"))):
        if os.path.basename(f) not in skip:
            out.append((os.path.basename(f), open(f, "rb").read()))
    fam = dict(inputs.families(rng, "quick"))
    out.append(("bz2_text_l1", bz2.compress(fam["text"], 1)))
    out.append(("bz2_runs_l9", bz2.compress(fam["runs_259"], 9)))
    out.append(("bz2_rand_l2", bz2.compress(fam["rand300k"], 2)))
    out.append(("bz2_concat", bz2.compress(fam["fib"][:50000], 3) + bz2.compress(b"", 9) + bz2.compress(fam["alt"][:3000], 1)))
    for n, d, p, iob in sched.planted_files(rng):
        out.append((n, d))
    # damaged variants: the result (status 1) must not depend on the configuration either
    good = bz2.compress(fam["text"][:60000], 1)
    bad = bytearray(good)
    bad[len(bad) // 2] ^= 0x04
    out.append(("bz2_text_damaged", bytes(bad)))
    out.append(("bz2_text_truncated", good[: len(good) * 2 // 3]))
    return out


def run(rep, tier, replay):
    rng = random.Random(vlib.seed())
    exe = vlib.build_impl()
    pol = sched.policy_of(exe)
    xtab = [t for t in shapes.EXPAND_QUICK if t[0] in ("xq_plain", "xq_straddle", "xq_cand_ok", "xq_blk_crc", "xq_w1")]
    if tier == "thorough":
        xtab = shapes.EXPAND_QUICK + [shapes.random_expand_shape(rng, i) for i in range(6)]
    mbad = sched.mc_legs(rep, [("expand", xtab)], pol, timeout=600 if tier == "thorough" else 900)
    # (G) every suspension point of the run-length emitter: Emit.tla behaviours through the real emit()
    srcdir = os.path.join(os.path.dirname(exe), "src")
    for line, beh in inproc.emit_leg(rep, srcdir, tier):
        rep.violation("emit() deviates from Emit.tla when the output buffer runs full: %s" % line,
                      dict(kind="inproc", cls="emit-replay", harness="replay_emit", behaviour=beh, failure=line))
    files = corpus(rng, tier)
    cases = []
    nvar = 8 if tier == "quick" else 24
    for name, data in files:
        try:                                              # one-byte output buffers only for tiny outputs
            small_out = len(bz2.decompress(data)) <= 1500
        except Exception:
            small_out = len(data) < 300
        variants = [dict(W=1, env={}, mode="stdin", args=[])]
        for i in range(nvar):
            env = {"VERIF_SCHED_SEED": rng.randrange(1000)}
            # (one or two 32-bit words per input block suspend parser and retriever at every word; small files only)
            ig = rng.choice(([4, 8] if len(data) < 3000 else []) + [32, 36, 64, 100, 4096, None])
            if ig:
                env["VERIF_IN_GRANUL"] = ig
            og = rng.choice(([1, 2, 7] if small_out else []) + [4096, 65536, None])
            if og:
                env["VERIF_OUT_GRANUL"] = og
            if rng.random() < 0.4:
                env["VERIF_IN_SLOTS"], env["VERIF_OUT_SLOTS"] = rng.choice([(2, 3), (3, 4), (4, 3)])
            v = dict(W=rng.choice([1, 2, 3, 8, 16]), env=env, mode=rng.choice(["stdin", "stdin", "pipe", "file", "cfile"]),
                     args=[], shim=({"VERIF_IO_SEED": rng.randrange(1000)} if rng.random() < 0.3 else None))
            variants.append(v)
        variants.append(dict(W=2, env={"VERIF_SCHED_SEED": 1}, mode="stdin", args=["-t"]))
        variants.append(dict(W=3, env={"VERIF_SCHED_SEED": 2, "VERIF_IN_GRANUL": 64}, mode="stdin", args=["-t"]))
        for v in variants:
            if v["mode"] in ("file", "cfile") and v.get("shim"):
                v["shim"] = None
            c = sched.Case("%s|d W=%d %s %s %s%s" % (name, v["W"], v["mode"], " ".join(v["args"]), v["env"], " shim" if v.get("shim") else ""),
                           ["-d", "-n", str(v["W"])] + v["args"], data, v["env"], kind="expand", mode=v["mode"],
                           shim=v.get("shim"), timeout=120)
            c.group = name
            c.testonly = "-t" in v["args"]
            cases.append(c)
    runs = sched.run_cases(exe, cases, par=8)
    groups = {}
    for t in runs:
        rep.add("impl_runs")
        groups.setdefault(t.case.group, []).append(t)
    n = 0
    for name, ts in groups.items():
        ref = ts[0]
        hung = [t for t in ts if t.run.timed_out]
        sig = [t for t in ts if (t.run.rc or 0) < 0 and not t.run.timed_out]
        for t in hung[:1]:
            rep.violation("hang: %s" % t.label, sched.save_stimulus("C09", "h%d" % n, t, dict(cls="hang")))
        for t in sig[:1]:
            rep.violation("killed by signal %d: %s %s" % (-t.run.rc, t.label, t.run.err[-200:]),
                          sched.save_stimulus("C09", "s%d" % n, t, dict(cls="crash")))
        ok = [t for t in ts if not t.run.timed_out and (t.run.rc or 0) >= 0]
        st = sorted(set(t.run.rc for t in ok))
        if len(st) > 1:
            odd = [t for t in ok if t.run.rc != ref.run.rc][0]
            rep.violation("exit status depends on the configuration: %s gives %s, %s gives %s" % (ref.label, ref.run.rc, odd.label, odd.run.rc),
                          sched.save_stimulus("C09", "st%d" % n, odd, dict(cls="status-differs", statuses=st)))
        outs = [t for t in ok if not t.case.testonly]
        if ref.run.rc == 0:
            diff = [t for t in outs if t.run.rc == 0 and t.run.out != ref.run.out]
            if diff:
                rep.violation("output bytes depend on the configuration: %s vs %s" % (diff[0].label, ref.label),
                              sched.save_stimulus("C09", "o%d" % n, diff[0], dict(cls="output-differs")))
            try:
                if bz2.decompress(ts[0].case.data) != ref.run.out:
                    rep.violation("output differs from libbz2's decoding: %s" % ref.label,
                                  sched.save_stimulus("C09", "r%d" % n, ref, dict(cls="wrong-result")))
            except Exception:
                pass
        else:
            # failing input: what was written before the failure must at least be consistent
            # (every output a prefix of the longest one); its LENGTH depends on timing - known finding
            so = [t for t in outs if t.case.mode in ("stdin", "pipe")]
            if so:
                longest = max(so, key=lambda t: len(t.run.out)).run.out
                incons = [t for t in so if longest[:len(t.run.out)] != t.run.out]
                if incons:
                    rep.violation("bytes written before a failure are not a prefix of the sequential decoding: %s" % incons[0].label,
                                  sched.save_stimulus("C09", "p%d" % n, incons[0], dict(cls="wrong-bytes-on-failure")))
                elif len(set(len(t.run.out) for t in so)) > 1:
                    t = so[0]
                    rep.violation("amount of output written before a failing decompression exits depends on timing: %s" % name,
                                  dict(kind="run", cls="partial-output-differs", expect_fail=True, label=name,
                                       lengths=sorted(set(len(x.run.out) for x in so))))
        n += 1
    rep.cov["groups"] = len(groups)
    rej = campaign.validate(runs, rep, strict=True)
    pol_rej = sched.report_rejections(rep, "C09", rej, "trace")
    rep.cov.setdefault("traces_validated_against_impl", 0)
    rep.sample({"group": runs[0].case.group, "configs": [t.label for t in groups[runs[0].case.group][:4]]})
    rep.cov["exhaustive"] = False
    rep.cov["policy_rejections"] = len(pol_rej)
    rep.cov["unconfirmed_model_counterexample"] = [m[0] for m in mbad]
    rep.assumptions += ["runs of the same build are compared with each other; libbz2 is consulted only where it accepts the input"]
    if rep.violations:
        return
    if mbad:
        raise vlib.Infra("model counterexample(s) not reproduced on the binary: %s" % [m[0] for m in mbad])
    if pol_rej:
        raise vlib.Infra("scheduling policy of the code differs from the model-checked one: %s" % pol_rej[0][1])
