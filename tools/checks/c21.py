"""C21 - I/O failures on filters terminate promptly.
(M) spec/Fail.tla: reader, writer, workers and the main thread in sigsuspend() with one read or write call
failing with EIO / ENOSPC / EPIPE / EFBIG, SIGPIPE / SIGXFSZ default or ignored; failfx()/bailout() of the
failing thread as three separately interleaved steps (report, promote the thread's pending signal, raise
SIGUSR1), the main thread's wake-up choosing any pending wake-up signal.  TLC checks for all interleavings:
never exit 0 after a failure, status / terminating signal as documented, diagnostic iff errno is not
EPIPE/EFBIG, SIGUSR1 and SIGUSR2 never compete, no write after a failed write, and termination under
fairness (never hangs).  (G) every model behaviour (operation, errno, disposition) is replayed at EVERY
concrete read / write call position (learned from a dry run) of compression, decompression and -cdf copy
runs of the real binary through harness/preload_io.c; exit status / signal, presence of a diagnostic and
wall time are compared with the model.  (E) the same faults produced by the kernel: output pipes closed
early, /dev/full, RLIMIT_FSIZE, a directory as standard input."""
import bz2, errno, os, random, resource, signal, subprocess, time
import vlib, campaign, inproc, crashtrace

LEVEL = "fault_enumeration"
ERRNO = {"EIO": errno.EIO, "ENOSPC": errno.ENOSPC, "EPIPE": errno.EPIPE, "EFBIG": errno.EFBIG}
PROMPT_S = 30.0       # "promptly": far below the harness timeout even on a loaded machine


def model(rep):
    behs, r = inproc.gen("Fail", dict(NItems=3, Slots=2),
                         ["NeverSuccessAfterFailure", "StatusAsDocumented", "DiagnosticRule", "NeverBoth", "NoWriteAfterFailedWrite", "Export"],
                         "fail", workers=4, timeout=600, spec="FairSpec", properties=["Terminates"])
    if behs is None:
        raise vlib.Infra("Fail.tla violates its own properties:\n" + r.text[-1500:])
    rep.add("states", r.distinct)
    rep.add("transitions", r.generated)
    exp = {}
    for b in behs:
        exp.setdefault((b["op"], b["err"], b["ign"]), set()).add((b["result"], b["diag"]))
    return exp


def classify(r):
    if r.timed_out:
        return "hang"
    if r.rc == 0:
        return "exit0"
    if r.rc == 1:
        return "exit1"
    if r.rc == -signal.SIGPIPE:
        return "sigpipe"
    if r.rc == -signal.SIGXFSZ:
        return "sigxfsz"
    return "exit%s" % r.rc if r.rc >= 0 else "signal%d" % -r.rc


def judge(exp, key, r, what, verbose=False):
    """None or the reason the run is not a behaviour of the model"""
    res = classify(r)
    alts = exp.get(key)
    if not alts:
        raise vlib.Infra("no model behaviour for %s" % (key,))
    if res == "hang":
        return "hang (no termination within the timeout)"
    got = (res, bool(r.err.strip()))
    if verbose and res in {a[0] for a in alts}:
        got = (res, [a[1] for a in alts if a[0] == res][0])           # -v: stderr is never empty, only the status is judged
    if got not in alts:
        want = sorted(alts)[0]
        if res != want[0]:
            return "process result %s, model says %s" % (res, want[0])
        return ("diagnostic %r printed although errno is %s" % (r.err[:80], key[1])) if got[1] else "no diagnostic for errno %s" % key[1]
    if r.wall > PROMPT_S:
        return "took %.1f s to terminate" % r.wall
    return None


def run(rep, tier, replay):
    rng = random.Random(vlib.seed())
    exe = vlib.build_impl()
    shim = vlib.build_shim()
    exp = model(rep)
    plain = bytes(rng.choice(b"abcdefgh \n") for _ in range(150000)) + rng.randbytes(120000)
    comp = bz2.compress(plain[:90000], 1) + bz2.compress(plain[90000:], 1)
    text = b"plain text, not bzip2\n" * 12000
    scens = [dict(name="compress", args=["-1", "-n", "2"], input=plain),
             dict(name="compress-seq", args=["-1", "-n", "3", "--sequential"], input=plain),
             dict(name="decompress", args=["-d", "-n", "2"], input=comp),
             dict(name="copy", args=["-cdf"], input=text)]
    # legal short reads / writes (harness/preload_io.c, deterministic per seed): several calls per buffer
    scens += [dict(name="compress-short", args=["-1", "-n", "2"], input=plain[:60000], env={"VERIF_IO_SEED": "5"}),
              dict(name="decompress-short", args=["-d", "-n", "2"], input=bz2.compress(plain[:40000], 1), env={"VERIF_IO_SEED": "6"}),
              dict(name="copy-short", args=["-cdf"], input=text[:150000], env={"VERIF_IO_SEED": "7"})]
    # -v (informational lines on stderr: only status and termination are judged), and a parent that left SIGINT / SIGTERM /
    # SIGUSR1 / SIGUSR2 blocked across exec (setup_signals() must undo that, or SIGUSR1 never wakes the main thread)
    scens += [dict(name="compress-v", args=["-1", "-n", "2", "-v"], input=plain[:80000], verbose=True),
              dict(name="decompress-v", args=["-d", "-n", "2", "-v"], input=bz2.compress(plain[:50000], 1), verbose=True),
              dict(name="compress-blocked-mask", args=["-1", "-n", "2"], input=plain[:80000], blocked=True),
              dict(name="decompress-blocked-mask", args=["-d", "-n", "2"], input=bz2.compress(plain[:50000], 1), blocked=True)]
    if tier == "thorough":
        scens += [dict(name="compress-n8", args=["-1", "-n", "8"], input=plain * 3),
                  dict(name="decompress-n5", args=["-d", "-n", "5"], input=comp * 4),
                  dict(name="test", args=["-t", "-n", "2"], input=comp)]
    jobs = []
    for scen in scens:
        log = os.path.join(vlib.subdir("c21"), "log_" + scen["name"])
        if os.path.exists(log):
            os.unlink(log)
        # small I/O granularity gives many call positions
        env0 = {"LD_PRELOAD": shim, "VERIF_IN_GRANUL": "16384", "VERIF_OUT_GRANUL": "8192"}
        env0.update(scen.get("env", {}))
        scen["file"] = os.path.join(vlib.subdir("c21"), "stdin_" + scen["name"])
        with open(scen["file"], "wb") as f:
            f.write(scen["input"])
        r = vlib.run([exe] + scen["args"], stdin_file=scen["file"], env=dict(env0, VERIF_IO_LOG=log), timeout=60, block_handled=bool(scen.get("blocked")))
        if r.timed_out:
            rep.violation("%s: the filter does not terminate even without any I/O failure" % scen["name"],
                          dict(kind="fault", cls="filter-io-failure", scenario=scen["name"], injection="none", observed=dict(result="hang")))
            continue
        if r.rc != 0 or (r.err and not scen.get("verbose")):
            raise vlib.Infra("dry run of %s failed: rc=%s %r" % (scen["name"], r.rc, r.err[:200]))
        calls = [l.split() for l in open(log)]
        nread = sum(1 for c in calls if c[0] == "read" and c[1] == "0")
        nwrite = sum(1 for c in calls if c[0] == "write" and c[1] == "1")
        other = [c for c in calls if c[0] in ("read", "write") and c[1] not in ("0", "1")]
        if other:
            raise vlib.Infra("unexpected I/O calls in filter mode: %s" % other[:3])
        rep.add("call_positions", nread + nwrite)
        for k in range(1, nread + 1):
            for ign in (False, True):
                jobs.append((scen, ("read", "EIO", ign), dict(env0, VERIF_IO_FAIL="read:%d:%d" % (k, errno.EIO)), "read#%d fails with EIO%s" % (k, ", SIGPIPE ignored" if ign else "")))
        for k in range(1, nwrite + 1):
            for e, no in ERRNO.items():
                for ign in (False, True):
                    jobs.append((scen, ("write", e, ign), dict(env0, VERIF_IO_FAIL="write:%d:%d" % (k, no)), "write#%d fails with %s%s" % (k, e, ", signals ignored" if ign else "")))
    rep.cov["injection_points"] = len(jobs)

    trdir = vlib.subdir("c21tr")

    def go(ij):
        i, job = ij
        scen, key, env, what = job
        tr = os.path.join(trdir, "t%d.ndjson" % i)
        # standard input is a file: the number of read calls is the dry run's
        return job, vlib.run([exe] + scen["args"], stdin_file=scen["file"], env=dict(env, VERIF_TRACE=tr), timeout=60, ignore_pipe=key[2],
                             block_handled=bool(scen.get("blocked"))), tr
    results3 = campaign.parallel(go, list(enumerate(jobs)), par=12)
    results = [(job, r) for job, r, tr in results3]
    for (scen, key, env, what), r in results:
        rep.add("evaluations")
        why = judge(exp, key, r, what, verbose=bool(scen.get("verbose")))
        if why:
            rep.violation("%s, %s: %s" % (scen["name"], what, why),
                          dict(kind="fault", cls="filter-io-failure", scenario=scen["name"], injection=what, model=sorted(map(list, exp[key])),
                               observed=dict(result=classify(r), stderr=r.err[:200].decode("latin1"), wall=r.wall)))
            if len(rep.violations) >= 8:
                break
    # ---- (V) the main thread's recorded path of every injection run against spec/TraceCrash.tla (sub-thread bailout before
    # SIGUSR1, never SIGUSR2 after a failure, cleanup before the end, success only after Exit)
    if len(rep.violations) < 8:
        units = [crashtrace.unit("%s, %s" % (scen["name"], what), False, "fail", tr, classify(r), "present", "none")
                 for (scen, key, env, what), r, tr in results3 if not r.timed_out]
        for why, label in crashtrace.validate_units(rep, units, tag="tcrash21"):
            rep.violation("recorded path is not a behaviour of TraceCrash.tla: %s [%s]" % (why, label),
                          dict(kind="trace", cls="main-path", reason=why, injection=label))
    # ---------------------------------------------------------------- faults produced by the kernel
    big = rng.randbytes(1 << 20)
    bigc = bz2.compress(bytes(rng.choice(b"ab \n") for _ in range(3 << 20)), 1)
    real = []
    for name, args, data in (("compress", ["-1", "-n", "3"], big), ("decompress", ["-d", "-n", "3"], bigc), ("copy", ["-cdf"], big)):
        for ign in (False, True):
            for keep in (0, 1, 70000):
                real.append((name, args, data, "pipe", ign, keep))
            real.append((name, args, data, "devfull", ign, 0))
            real.append((name, args, data, "fsize", ign, 4096))
        real.append((name, args, data, "stdin-dir", False, 0))

    for name, args, data in {(j[0], tuple(j[1]), j[2]) for j in real}:
        with open(os.path.join(vlib.subdir("c21"), "in_%s" % name), "wb") as f:
            f.write(data)

    def go_real(job):
        name, args, data, kind, ign, arg = job
        d = vlib.subdir("c21")
        src = os.path.join(d, "in_%s" % name)             # (written before the jobs start)
        t0 = time.time()
        if kind == "pipe":
            with open(src, "rb") as fin:
                p = subprocess.Popen(vlib.launch_prefix(ign) + [exe] + args, stdin=fin, stdout=subprocess.PIPE, stderr=subprocess.PIPE,
                                     start_new_session=True)
                got = b""
                while len(got) < arg:
                    c = p.stdout.read(arg - len(got))
                    if not c:
                        break
                    got += c
                p.stdout.close()
                try:
                    err = p.stderr.read()
                    p.wait(timeout=60)
                    to = False
                except subprocess.TimeoutExpired:
                    os.killpg(p.pid, signal.SIGKILL)
                    p.wait()
                    to, err = True, b""
            return job, vlib.Run(p.returncode, b"", err, to, time.time() - t0)
        if kind == "devfull":
            return job, vlib.run([exe] + args, stdin_file=src, stdout_file="/dev/full", timeout=60, ignore_pipe=ign)
        if kind == "fsize":
            out = os.path.join(d, "lim_%s_%d" % (name, ign))
            r = vlib.run([exe] + args, stdin_file=src, stdout_file=out, timeout=60, ignore_pipe=ign, fsize=arg)
            os.unlink(out)
            return job, r
        fd = os.open(d, os.O_RDONLY)
        try:
            p = subprocess.Popen(vlib.launch_prefix() + [exe] + args, stdin=fd, stdout=subprocess.PIPE, stderr=subprocess.PIPE, start_new_session=True)
            try:
                out, err = p.communicate(timeout=60)
                to = False
            except subprocess.TimeoutExpired:
                os.killpg(p.pid, signal.SIGKILL)
                out, err = p.communicate()
                to = True
        finally:
            os.close(fd)
        return job, vlib.Run(p.returncode, out, err, to, time.time() - t0)
    for (name, args, data, kind, ign, arg), r in campaign.parallel(go_real, real, par=8):
        rep.add("evaluations")
        rep.add("kernel_fault_runs")
        key = {"pipe": ("write", "EPIPE", ign), "devfull": ("write", "ENOSPC", ign), "fsize": ("write", "EFBIG", ign),
               "stdin-dir": ("read", "EIO", False)}[kind]
        what = {"pipe": "output pipe closed after %d bytes" % arg, "devfull": "standard output is /dev/full",
                "fsize": "RLIMIT_FSIZE %d on the output file" % arg, "stdin-dir": "standard input is a directory"}[kind] + (", signals ignored" if ign else "")
        why = judge(exp, key, r, what)
        if why:
            rep.violation("%s, %s: %s" % (name, what, why),
                          dict(kind="fault", cls="filter-io-failure-real", scenario=name, injection=what, model=sorted(map(list, exp[key])),
                               observed=dict(result=classify(r), stderr=r.err[:200].decode("latin1"), wall=r.wall)))
    rep.cov["distinct_nontrivial"] = rep.cov.get("evaluations", 0)
    rep.cov["rule"] = ("one case per (scenario, call position, errno, signal disposition), all distinct; non-trivial = the injected call was "
                       "reached (positions come from a dry run with the same regular file as standard input, so every run makes the same calls)")
    rep.cov["exhaustive"] = True
    rep.cov["exhaustive_note"] = ("every read/write call position of the scenario runs x {EIO | EIO, ENOSPC, EPIPE, EFBIG} x {SIGPIPE/SIGXFSZ default, "
                                  "ignored}; plus kernel-generated EPIPE / ENOSPC / EFBIG / EISDIR")
    rep.sample({"injection": results[0][0][3], "scenario": results[0][0][0]["name"], "observed": classify(results[0][1])})
    rep.sample({"injection": results[-1][0][3], "scenario": results[-1][0][0]["name"], "observed": classify(results[-1][1])})
    rep.assumptions += ["injected failures happen at the libc call boundary (harness/preload_io.c); as the kernel does, an injected EPIPE / EFBIG "
                        "also generates SIGPIPE / SIGXFSZ for the calling thread",
                        "'promptly' is judged as termination within %.0f s wall time" % PROMPT_S]
