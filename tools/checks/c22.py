"""C22 - invocation name and option sources select the documented mode.
(M+G) spec/Cli.tla is an executable model of the documented rules (invocation names, -d/-z last wins and
reset of -t, -c/-t conflict, clustered short options, -n N / -nN, --, the ignored compatibility options,
tokens of LBZIP2, BZIP2, BZIP placed before the command line).  TLC enumerates every token sequence up to
a bound over a token alphabet x every invocation name x every way of moving leading tokens into the
environment and prints the expected observable behaviour; the real binary is run through a symlink of that
name with that environment and command line on a known FILE operand and must show exactly it: what
happened to the operand, where the output went, the level digit, the exit status; options documented as
ignored must leave the output byte-identical."""
import bz2, os, random, shutil
import vlib, campaign, inproc

LEVEL = "model_checking"
P = b"the operand of the command line model\n" * 40
NAMES = ["lbzip2", "bzip2", "bunzip2", "lbunzip2", "bzcat", "lbzcat", "xyz"]


def tok(kind, text, **kw):
    d = dict(kind=kind, text=text)
    d.update(kw)
    return d


def alphabet():
    a = []
    for t in ("-d", "-z", "-c", "-t", "-k", "-f", "-1", "-5", "-9", "-s", "-q", "-v", "-u", "-dc", "-cd", "-zk", "-tc", "-x", "-h", "-V"):
        a.append(tok("short", t, chars=list(t[1:])))
    a.append(tok("short", "-n2", chars=["n", "2"]))
    a.append(tok("short", "-n", chars=["n"]))
    a.append(tok("short", "-dn", chars=["d", "n"]))
    for t in ("--decompress", "--compress", "--stdout", "--test", "--keep", "--force", "--fast", "--best", "--small", "--quiet",
              "--repetitive-fast", "--repetitive-best", "--exponential", "--sequential", "--bogus", "--help", "--version"):
        a.append(tok("long", t, name=t[2:]))
    a.append(tok("dashdash", "--"))
    a.append(tok("op", "2", num=True))
    return a


def tla_tok(t):
    items = []
    for k, v in t.items():
        if isinstance(v, bool):
            items.append("%s |-> %s" % (k, "TRUE" if v else "FALSE"))
        elif isinstance(v, list):
            items.append("%s |-> <<%s>>" % (k, ", ".join('"%s"' % c for c in v)))
        else:
            items.append('%s |-> "%s"' % (k, v))
    return "[" + ", ".join(items) + "]"


def observe(exe_dir, b, ref):
    """run the binary as the model says and compare; returns None or a reason"""
    d = os.path.join(vlib.subdir("cli"), "w%d" % b["_i"])
    os.makedirs(d)
    try:
        run_mode = b["end"] == "run"
        dec = b["dec"]
        comp = ref[(b["bs"], b["ultra"])]
        fname = "FILE.bz2" if (run_mode and dec) else "FILE"
        content = comp if fname.endswith(".bz2") else P
        with open(os.path.join(d, fname), "wb") as f:
            f.write(content)
        toks = list(b["toks"])
        # the first b["env"] tokens come from LBZIP2, BZIP2, BZIP (in that order): any split into three consecutive
        # groups is the same command line, however the blanks are laid out; a variable without tokens may be unset,
        # empty or blank
        rnd = random.Random(b["_i"] * 7919 + 1)
        k = b["env"]
        c1 = rnd.randint(0, k)
        c2 = rnd.randint(c1, k)
        groups = [toks[:c1], toks[c1:c2], toks[c2:k]]
        env = {}
        for var, g in zip(("LBZIP2", "BZIP2", "BZIP"), groups):
            if g:
                seps = [rnd.choice([" ", "  ", "\t", " \t "]) for _ in g]
                env[var] = rnd.choice(["", " ", "\t ", "  "]) + "".join(t + sp for t, sp in zip(g[:-1], seps)) + g[-1] + rnd.choice(["", " ", " \t", "   "])
            else:
                v = rnd.choice([None, None, "", " ", " \t "])
                if v is not None:
                    env[var] = v
        argv = toks[b["env"]:] + [fname]
        link = os.path.join(d, b["name"])
        os.symlink(os.path.join(exe_dir, "lbzip2"), link)
        stdin = b""
        if run_mode and b["operands"] == 0:
            stdin = comp if dec else P            # no operand left: filter
        r = vlib.run([link] + argv, stdin=stdin, env=env, cwd=d, timeout=30)
        files = {n: open(os.path.join(d, n), "rb").read() for n in os.listdir(d) if n != b["name"]}
        if r.timed_out:
            return "hang"
        if (r.rc or 0) < 0:
            return "killed by signal %d" % -r.rc
        if b["end"] == "fatal":
            if r.rc != 1 or not r.err:
                return "expected a fatal usage error (exit 1 with a message), got exit %s" % r.rc
            if files != {fname: content}:
                return "files changed although the command line is rejected"
            return None
        if b["end"] in ("usage", "version"):
            if r.rc != 0 or not r.out:
                return "expected %s text on standard output and exit 0, got exit %s" % (b["end"], r.rc)
            if files != {fname: content}:
                return "files changed although only %s was requested" % b["end"]
            return None
        want = P if dec else comp
        # other operands (a stray "2", tokens after "--") name files that do not exist: skipped with a warning
        want_rc = 4 if b["operands"] >= 2 else 0
        if r.rc != want_rc:
            return "exit %s (%s), expected %d after a %s" % (r.rc, r.err[-120:].decode("latin1").strip(), want_rc, "decompression" if dec else "compression")
        if b["operands"] == 0:
            if r.out != want:
                return "filter output is not the expected %s" % ("plaintext" if dec else "level-%d stream" % b["bs"])
            return None
        if b["om"] == "stdout":
            if r.out != want:
                return "standard output is not the expected %s" % ("plaintext" if dec else "level-%d stream (header %r)" % (b["bs"], r.out[:4]))
            if files != {fname: content}:
                return "files changed in -c mode"
        elif b["om"] == "discard":
            if r.out or files != {fname: content}:
                return "-t wrote output or changed files"
        else:
            oname = "FILE" if dec else "FILE.bz2"
            exp = {oname: want}
            if b["keep"]:
                exp[fname] = content
            if r.out:
                return "unexpected data on standard output"
            if files != exp:
                return "files after the run: %s, expected %s" % (sorted((k, len(v)) for k, v in files.items()), sorted((k, len(v)) for k, v in exp.items()))
        return None
    finally:
        shutil.rmtree(d, ignore_errors=True)


def run(rep, tier, replay):
    rng = random.Random(vlib.seed())
    exe = vlib.build_impl()
    exe_dir = os.path.dirname(exe)
    # reference outputs with canonical options (same build)
    ref = {}
    for bs in range(1, 10):
        for u in (False, True):
            r = vlib.run([exe, "-%d" % bs] + (["-u"] if u else []), stdin=P)
            if r.rc != 0 or bz2.decompress(r.out) != P:
                raise vlib.Infra("reference compression failed")
            ref[(bs, u)] = r.out
    alpha = alphabet()
    adef = "{%s}" % ", ".join(tla_tok(t) for t in alpha)
    ndef = "{%s}" % ", ".join('"%s"' % n for n in NAMES)
    behs, r = inproc.gen("Cli", dict(MaxTokens=2), ["Export"], "cli", defs=dict(Alphabet=adef, Names=ndef, Placements="{0, 1, 2}"),
                         timeout=3000, workers=8, xmx="12g")
    if behs is None:
        raise vlib.Infra("Cli.tla failed: " + r.text[-1500:])
    rep.add("states", r.distinct)
    rep.add("transitions", r.generated)
    if tier == "thorough":
        # three tokens over the tokens that interact (mode, output, level, --, -n with its argument), every name and placement
        core = [t for t in alpha if t["text"] in ("-d", "-z", "-c", "-t", "-k", "-1", "-9", "-dc", "-n", "-n2", "--", "2", "--test", "--compress", "--best", "--bogus")]
        b3, r3 = inproc.gen("Cli", dict(MaxTokens=3), ["Export"], "cli3", timeout=3000, workers=8, xmx="12g",
                            defs=dict(Alphabet="{%s}" % ", ".join(tla_tok(t) for t in core), Names=ndef, Placements="{0, 1, 2, 3}"))
        if b3 is None:
            raise vlib.Infra("Cli.tla (three tokens) failed: " + r3.text[-1500:])
        rep.add("states", r3.distinct)
        rep.add("transitions", r3.generated)
        three = [b for b in b3 if len(b["toks"]) == 3]
        rep.cov["three_token_lines_in_model"] = len(three)
        behs += three if len(three) <= 15000 else rng.sample(three, 15000)
    if tier == "quick" and len(behs) > 6000:
        # all one-token cases, a seeded sample of the two-token ones
        one = [b for b in behs if len(b["toks"]) <= 1]
        two = [b for b in behs if len(b["toks"]) > 1]
        behs = one + rng.sample(two, 6000 - len(one))
        rep.cov["exhaustive"] = False
    else:
        rep.cov["exhaustive"] = True
    for i, b in enumerate(behs):
        b["_i"] = i
    results = campaign.parallel(lambda b: (b, observe(exe_dir, b, ref)), behs, par=12)
    for b, why in results:
        rep.add("traces_validated_against_impl")
        if why:
            rep.violation("%s %s (env: first %d tokens): %s" % (b["name"], " ".join(b["toks"]), b["env"], why),
                          dict(kind="cli", cls="cli-mode", name=b["name"], toks=b["toks"], env=b["env"], expected={k: b[k] for k in ("end", "dec", "om", "bs", "keep", "operands")}, why=why))
            if len(rep.violations) >= 8:
                break
    rep.cov["behaviours_replayed"] = len(behs)
    rep.sample({k: behs[len(behs) // 2][k] for k in ("name", "toks", "env", "end", "dec", "om", "bs")})
    rep.sample({k: behs[-1][k] for k in ("name", "toks", "env", "end", "dec", "om", "bs")})
    rep.assumptions += ["the token alphabet of tools/checks/c22.py (41 tokens) stands for the option spellings; longer command lines are not explored"]
