"""C07 - damaged input is rejected cleanly.
(G) fault enumeration derived from spec/BZ2.tla: every truncation point of a set of valid files (exhaustive
per file), the single-defect files of the specification, single/multi-site field-level and byte-level
corruptions of real streams (kept only when the calibrated inspector says the result is invalid), the empty
file and wrong magics.  The real binary must exit with status 1 and a diagnostic on standard error - no
signal, no hang, no exit 0 - under several worker counts and input block sizes; as a FILE operand it must
leave no output file and keep the input."""
import os, random
import vlib, sched, fmtsession, bzgen, bzfmt

LEVEL = "fault_enumeration"


def run(rep, tier, replay):
    rng = random.Random(vlib.seed())
    exe = vlib.build_impl()
    bzgen.calibrate(rep, vlib.seed() + 2, 6 if tier == "quick" else 20)
    valid = fmtsession.spec_items("valid", 40 if tier == "quick" else 400, vlib.seed() + 3)
    real = [it for it in fmtsession.specimen_items() if it.valid] + fmtsession.third_party_items(rng, "quick")
    items = [it for it in fmtsession.spec_items("defect", 200 if tier == "quick" else 3000, vlib.seed() + 4) if not it.valid]
    muts = fmtsession.mutation_items(rng, valid + real, 250 if tier == "quick" else 5000)
    items += [m for m in muts if not m.valid]
    # every truncation point of a few valid files
    tfiles = sorted([it for it in valid + real if it.valid and 60 < len(it.data) < (400 if tier == "quick" else 3000)], key=lambda i: len(i.data))
    tfiles = tfiles[:2] + tfiles[-1:] if tier == "quick" else tfiles[:20]
    tfiles += fmtsession.tail_files()       # every length residue mod 4 x last byte 0x00 / 0xFF (zero padding of the last word)
    ntr = 0
    for it in tfiles:
        tr = [t for t in fmtsession.truncation_items(it) if not t.valid]
        ntr += len(tr)
        items += tr
    rep.cov["truncation_points"] = ntr
    rep.cov["truncated_files"] = [it.label for it in tfiles]
    items += [it for it in fmtsession.crafted_items(tier) if not it.valid]
    items += [fmtsession.Item("empty", b"", False, None, origin="special"),
              fmtsession.Item("magic:BZh0", b"BZh0" + b"\x17\x72\x45\x38\x50\x90\0\0\0\0", False, None, origin="special"),
              fmtsession.Item("magic:gzip", b"\x1f\x8b\x08\x00" + bytes(20), False, None, origin="special"),
              fmtsession.Item("header_only", b"BZh9", False, None, origin="special")]
    cases = fmtsession.decode_cases(items, rng)
    # FILE operand variant for a sample
    for it in rng.sample(items, min(len(items), 40 if tier == "quick" else 400)):
        c = sched.Case("%s|d FILE" % it.label, ["-d", "-n", "2"], it.data, {}, kind="expand", timeout=60, mode="file")
        c.item = it
        cases.append(c)
    runs = sched.run_cases(exe, cases, par=8)
    seen = set()
    for t in runs:
        it, r = t.case.item, t.run
        rep.add("evaluations")
        seen.add(vlib.digest(it.data))
        why = None
        if r.timed_out:
            why = "hang"
        elif (r.rc or 0) < 0:
            why = "killed by signal %d (%s)" % (-r.rc, r.err[-120:].decode("latin1").strip())
        elif r.rc != 1:
            why = "exit status %s on invalid input" % r.rc
        elif not r.err.strip():
            why = "no diagnostic on standard error"
        elif t.case.mode == "file" and getattr(t, "outfile_exists", False):
            why = "output file left behind"
        if why:
            rep.violation("%s: %s [%s]" % (it.label, why, t.label),
                          sched.save_stimulus("C07", "v%d" % len(rep.violations), t, dict(cls="invalid-not-rejected", origin=it.origin, why=why)))
            if len(rep.violations) >= 8:
                break
    rep.cov["distinct_nontrivial"] = len(seen)
    rep.cov["rule"] = ("invalid inputs: all truncation points of the listed files, BZ2.tla single-defect files, mutations judged invalid by the "
                       "calibrated inspector, special cases; distinct by content hash; all are non-trivial (each must be rejected)")
    rep.cov["exhaustive"] = True
    rep.cov["exhaustive_note"] = "exhaustive over the truncation points of the listed files only; other legs are sampled"
    rep.sample({"item": items[0].label, "bytes": len(items[0].data)})
    rep.sample({"item": items[len(items) // 2].label, "bytes": len(items[len(items) // 2].data)})
    rep.assumptions += ["tools/bzfmt.py agrees with BZ2.tla on the calibration sample of this run"]
