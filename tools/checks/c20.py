"""C20 - prefix tables are optimal for the symbols they code.
(M) spec/Prefix.tla: TLC proves package-merge equal to the brute-force optimum over all complete codes of
bounded length on a small domain; (V) for every block the real binary writes, the calibrated inspector
recovers each table's code lengths and the counts of the symbols coded with it, and TLC evaluates the
oracle: every table used by at least one group is a complete code, no code is longer than 20 bits, and
sum f*len equals the length-limited optimum for that table's own maximal length.  (G) in-process:
assign_codes() of the working tree (package-merge and the choice of the table height) is called on frequency vectors of every alphabet size 3..258
(uniform, geometric, Fibonacci-like vectors that force the 20-bit limit, random) and judged the same way."""
import os, random, subprocess
import vlib, sched, inputs, bzfmt, prefixoracle

LEVEL = "other"


def fib_input(n):
    """bytes with Fibonacci-like frequencies: unlimited Huffman depth would exceed 20"""
    out = bytearray()
    a, b = 1, 1
    for sym in range(n):
        out += bytes([sym]) * a
        a, b = b, a + b
    return bytes(out)


def run(rep, tier, replay):
    rng = random.Random(vlib.seed())
    exe = vlib.build_impl()
    srcdir = os.path.join(os.path.dirname(exe), "src")
    prefixoracle.prove(rep, tier)
    # ---- in-process: assign_codes on every alphabet size (zero frequencies included)
    hx = vlib.build_harness("replay_prefix", "replay_prefix.c", srcdir, extra=[os.path.join(srcdir, "crctab.c")])
    vecs = []
    for n in range(3, 259):
        if tier == "quick" and not (n < 8 or n > 255 or n % 3 == 0):
            continue
        kinds = ["uniform", "geom", "fib", "rand"] if (tier == "thorough" or n % 21 == 3 or n < 8) else [rng.choice(["geom", "fib", "rand"])]
        for k in kinds:
            if k == "uniform":
                f = [rng.randrange(1, 4)] * n
            elif k == "geom":
                f = [max(1, 400000 >> min(i, 19)) for i in range(n)]
            elif k == "fib":
                a, b, f, tot = 1, 1, [], 0
                for i in range(n):
                    x = a if tot + a <= 880000 - n else 1
                    f.append(x)
                    tot += x
                    a, b = b, a + b
                rng.shuffle(f)
            else:
                f = [rng.randrange(0, rng.choice([2, 50, 3000])) for _ in range(n)]
            assert sum(f) <= 900001      # a block holds at most 900000 symbols + EOB
            vecs.append(f)
    # sparse tables: a few used symbols (one of them occurring once, like EOB) among many zero-frequency ones, which
    # package-merge has to pack into weightless packages many levels deep
    for n in range(20, 259, 1 if tier == "thorough" else 7):
        for counts in ([rng.choice([40, 5000, 300000]), 1], [rng.choice([7, 900]), 1, 1], [1, 1], [rng.choice([3, 60000]), rng.choice([2, 3]), 1, 1]):
            f = [0] * n
            for pos, c in zip(rng.sample(range(n), len(counts)), counts):
                f[pos] = c
            vecs.append(f)
    p = subprocess.run([hx], input="\n".join("%d %s" % (len(f), " ".join(map(str, f))) for f in vecs) + "\n", capture_output=True, text=True, timeout=300)
    lens = [list(map(int, l.split()[2:])) for l in p.stdout.splitlines() if l.startswith("L ")]
    if p.returncode != 0 or len(lens) != len(vecs):
        raise vlib.Infra("replay_prefix failed: %s %s" % (p.returncode, p.stderr[-300:]))
    tabs = [dict(f=f, l=l) for f, l in zip(vecs, lens)]
    for i, cost, opt, L in prefixoracle.check_tables(tabs, "pf_inproc")[:4]:
        rep.violation("assign_codes(): cost %d, optimum %d for maximal length %d (alphabet size %d)" % (cost, opt, L, len(tabs[i]["f"])),
                      dict(kind="inproc", cls="suboptimal-table", harness="replay_prefix", freq=tabs[i]["f"], lens=tabs[i]["l"]))
    rep.add("evaluations", len(tabs))
    rep.cov["inprocess_vectors"] = len(tabs)
    rep.cov["alphabet_sizes"] = "3..258"
    rep.cov["limit_forced"] = sum(1 for t in tabs if max(t["l"]) == 20)
    # ---- tables of real outputs
    fam = inputs.families(rng, tier)
    fam += [("fib_freq_%d" % n, fib_input(n)) for n in (24, 30, 40)] + [("small_alpha", bytes(rng.choice(b"abc") for _ in range(5000)))]
    # short blocks in which one 50-symbol stretch is unlike the rest (a table that serves a single group), and short
    # high-entropy inputs (tables whose description costs about as much as they save)
    for k, n in enumerate((400, 1500, 4000, 9000)):
        base = bytearray(rng.choice(b"ab \n") for _ in range(n))
        at = n // 3
        base[at:at + 60] = bytes(rng.sample(range(32, 256), 60))
        fam.append(("burst_%d" % n, bytes(base)))
        fam.append(("rand_%d" % (n // 2), rng.randbytes(n // 2)))
    cases = []
    for name, data in fam:
        if not data:
            continue
        for level in (rng.choice([1, 9]),) if tier == "quick" else (1, 5, 9):
            cases.append(sched.Case("%s|c -%d" % (name, level), ["-%d" % level, "-n", "2"], data, {}, kind="compress", timeout=180))
    runs = sched.run_cases(exe, cases, par=8)
    tables, where = [], []
    for t in runs:
        if t.run.rc != 0:
            rep.violation("compression failed: %s" % t.label, sched.save_stimulus("C20", "c%d" % len(rep.violations), t, dict(cls="wrong-result")))
            continue
        ins = bzfmt.inspect(t.run.out)
        if not ins.valid:
            rep.violation("output invalid (%s): %s" % (ins.reason, t.label), sched.save_stimulus("C20", "i%d" % len(rep.violations), t, dict(cls="wrong-result")))
            continue
        for bi, b in enumerate(ins.blocks):
            for tno in sorted(set(b.selectors[:b.groups])):
                tables.append(dict(f=b.freq[tno], l=b.tables[tno]))
                where.append((t, bi, tno))
    if tier == "quick" and len(tables) > 160:
        pick = sorted(rng.sample(range(len(tables)), 160))
        tables, where = [tables[i] for i in pick], [where[i] for i in pick]
    for i, cost, opt, L in prefixoracle.check_tables(tables, "pf_real")[:6]:
        t, bi, tno = where[i]
        rep.violation("block %d table %d: coded length %d bits, optimum %d for codes of at most %d bits (%s)" % (bi, tno, cost, opt, L, t.label),
                      sched.save_stimulus("C20", "t%d" % len(rep.violations), t, dict(cls="suboptimal-table", block=bi, table=tno, freq=tables[i]["f"], lens=tables[i]["l"])))
    rep.add("evaluations", len(tables))
    rep.cov["tables_from_real_outputs"] = len(tables)
    rep.cov["distinct_nontrivial"] = len(set(str(t) for t in tables + tabs))
    rep.cov["rule"] = "one case per used table of every block written (and per in-process frequency vector); distinct by (frequencies, lengths); all are non-trivial"
    rep.cov["explanation"] = "TLC-evaluated optimality oracle (Prefix.tla, proved against brute force on a small domain) on tables recovered from real outputs and from make_code_lengths()"
    rep.sample({"table": {"f": tables[0]["f"][:12], "l": tables[0]["l"][:12]}} if tables else {})
    rep.assumptions += ["per-table symbol counts come from tools/bzfmt.py's own decoding of the written stream"]
