"""C17 - file operands follow the documented naming and safety rules.
(M+G) spec/FileOps.tla gives, for every combination of mode, -k/-c/-t/-f, operand kind (regular,
hard-linked, symlink, directory, missing, fifo), name suffix, pre-existing output (none, file, directory),
content and permission class, the documented outcome: skipped with a warning (status 4), processed (output
name by the suffix rules, input's permission bits and access/modification times on the output, input removed
unless -k/-c/-t), or fatal.  TLC enumerates the scenarios (and checks the two safety rules as invariants of
the model); each is built in a scratch directory and replayed 1:1 against the real binary."""
import random
import vlib, campaign, inproc, fileops

LEVEL = "model_checking"


def sets(xs):
    return "{%s}" % ", ".join('"%s"' % x for x in xs)


def optsets():
    out = []
    for m in range(32):
        o = [c for i, c in enumerate("kctfv") if m >> i & 1]
        if not ("c" in o and "t" in o):
            out.append("{%s}" % ", ".join('"%s"' % c for c in o))
    return "{%s}" % ", ".join(out)


def run(rep, tier, replay):
    rng = random.Random(vlib.seed())
    exe = vlib.build_impl()
    defs = dict(Modes=sets(["compress", "decompress"]), OptSets=optsets(),
                Kinds=sets(["regular", "hardlink", "symlink", "directory", "missing", "fifo"]),
                Suffixes=sets(["", ".bz2", ".tbz", ".tbz2", ".tz2", ".tar", ".bz2x"]),
                Existing=sets(["none", "file", "directory"]), Contents=sets(["good", "bad"]),
                ModeBits=sets(["0644", "0600", "0755", "4755"]), ErrModes="{FALSE, TRUE}", Stems="{\"x\", \"\"}")
    behs, r = inproc.gen("FileOps", dict(MaxOperands=1), ["NeverClobbers", "SkipsNonRegular", "Export"], "fo17", defs=defs, timeout=1500, workers=8)
    if behs is None:
        raise vlib.Infra("FileOps.tla failed: " + r.text[-1500:])
    rep.add("states", r.distinct)
    rep.add("transitions", r.generated)
    total = len(behs)
    if tier == "quick" and len(behs) > 3000:
        behs = rng.sample(behs, 3000)
        rep.cov["exhaustive"] = False
    else:
        rep.cov["exhaustive"] = True
    res = campaign.parallel(lambda ib: (ib[1], fileops.replay(exe, ib[1], ib[0])), list(enumerate(behs)), par=12)
    kinds = {}
    for sc, why in res:
        rep.add("traces_validated_against_impl")
        kinds[sc["effects"][0]["outcome"]] = kinds.get(sc["effects"][0]["outcome"], 0) + 1
        if why:
            op = sc["ops"][0]
            rep.violation("%s -%s%s on a %s operand x%s (output: %s, bits %s, %s content): %s" %
                          (sc["mode"], "".join(sorted(sc["opts"])) or "-", " 2>/dev/full" if sc.get("errfull") else "", op["kind"], op["suffix"], op["existing"], op["bits"], op["content"], why),
                          dict(kind="fileops", cls="operand-rule", scenario=sc, why=why))
            if len(rep.violations) >= 8:
                break
    rep.cov["scenarios_in_model"] = total
    rep.cov["outcomes"] = kinds
    rep.sample({k: behs[0][k] for k in ("mode", "opts", "ops", "status")})
    rep.sample({k: behs[len(behs) // 2][k] for k in ("mode", "opts", "ops", "status")})
    rep.assumptions += ["runs as the current user (root in this sandbox): ownership changes are not observable", "fifo operands are only used where lbzip2 must not open them"]
