"""C05 - decompression never accepts malformed data or emits wrong bytes.
(G) spec/BZ2.tla generates files with exactly one defect from the list of the property (delta step to 0 /
21 that comes back, oversubscribed used table, selector out of range, zero selectors, 0/1/7 tables, empty
bitmap, index >= size, overflow of the declared level by one byte, CRC bit flips, truncation, trailing
full header, damaged magics) plus valid files; (V) field-aware and byte-level mutations of real streams
with the calibrated inspector as reference.  Rule: if the real binary exits 0 then the reference says the
input is valid and the bytes written are the reference decoding."""
import random
import vlib, sched, fmtsession, bzgen

LEVEL = "other"


def run(rep, tier, replay):
    rng = random.Random(vlib.seed())
    exe = vlib.build_impl()
    # (M+G) spec/Parser.tla: the header/trailer parser transcribed and checked against the stream grammar; every stimulus
    # (valid shapes, every single-bit flip outside payloads, every truncation) replayed through the real parse() under
    # chunkings that suspend it at every word and exactly at stream ends
    import inproc, os
    for why, beh in inproc.parse_leg(rep, os.path.join(os.path.dirname(exe), "src"), tier):
        rep.violation(why, dict(kind="inproc", cls="parse-replay", harness="replay_parse", stimulus=beh))
    bzgen.calibrate(rep, vlib.seed() + 1, 6 if tier == "quick" else 20)
    valid = fmtsession.spec_items("valid", 60 if tier == "quick" else 600, vlib.seed())
    defect = fmtsession.spec_items("defect", 240 if tier == "quick" else 4000, vlib.seed() + 7)
    base = valid + [it for it in fmtsession.specimen_items() if it.valid] + fmtsession.third_party_items(rng, "quick")
    muts = fmtsession.mutation_items(rng, base, 300 if tier == "quick" else 6000)
    items = valid + defect + muts + fmtsession.crafted_items(tier) + fmtsession.specimen_items()
    cases = fmtsession.decode_cases(items, rng)
    runs = sched.run_cases(exe, cases, par=8)
    seen, accepted, rejected = set(), 0, 0
    for t in runs:
        it, r = t.case.item, t.run
        rep.add("evaluations")
        seen.add(vlib.digest(it.data))
        why = None
        if r.timed_out:
            why = "hang"
        elif (r.rc or 0) < 0:
            why = "killed by signal %d (%s)" % (-r.rc, r.err[-120:].decode("latin1").strip())
        elif r.rc == 0:
            accepted += 1
            if not it.valid:
                why = "malformed input accepted (reference: invalid)"
            elif r.out != it.plain:
                why = "accepted with wrong bytes (%d, reference %d)" % (len(r.out), len(it.plain))
        else:
            rejected += 1
        if why:
            rep.violation("%s: %s [%s]" % (it.label, why, t.label),
                          sched.save_stimulus("C05", "v%d" % len(rep.violations), t, dict(cls="malformed-accepted", origin=it.origin, why=why)))
            if len(rep.violations) >= 8:
                break
    rep.cov["accepted"], rep.cov["rejected"] = accepted, rejected
    rep.cov["distinct_nontrivial"] = len(seen)
    rep.cov["rule"] = ("inputs: BZ2.tla valid and single-defect files (TLC simulation, seeded) and mutations of real streams; distinct by "
                       "content hash; every input is non-trivial (a stream header is present or deliberately damaged)")
    rep.cov["explanation"] = ("specification-derived fault generation (TLC) and mutation, replayed into the real binary; reference verdict and "
                              "bytes from BZ2.tla resp. the inspector calibrated against it; not exhaustive")
    rep.sample({"item": defect[0].label, "bytes": len(defect[0].data)})
    rep.sample({"item": muts[0].label, "reference_valid": muts[0].valid})
    rep.assumptions += ["tools/bzfmt.py agrees with BZ2.tla on the calibration sample of this run"]
