"""C15 - stored CRC fields are enforced.
Fault enumeration: for a corpus of multi-block, multi-stream files (tiny ones generated from spec/BZ2.tla,
lbzip2 and libbz2 output with first / middle / last blocks and later concatenated streams) EVERY bit of
EVERY stored block CRC and stream CRC - located through the field map of the calibrated inspector - is
flipped in turn and the real binary must exit with status 1, for worker counts 1, 2 and 4, small input
blocks, and input blocks of one and two 32-bit words (every field then straddles calls of the resumable
parser / retriever in the way its bit offset dictates; the corpus has fields at many offsets mod 32).
Exhaustive per file."""
import bz2, random
import vlib, sched, fmtsession, bzgen, bzfmt

LEVEL = "fault_enumeration"


def run(rep, tier, replay):
    rng = random.Random(vlib.seed())
    exe = vlib.build_impl()
    # (M+G) spec/Parser.tla: the header/trailer parser transcribed and checked against the stream grammar; every stimulus
    # (valid shapes, every single-bit flip outside payloads, every truncation) replayed through the real parse() under
    # chunkings that suspend it at every word and exactly at stream ends
    import inproc, os
    for why, beh in inproc.parse_leg(rep, os.path.join(os.path.dirname(exe), "src"), tier):
        rep.violation(why, dict(kind="inproc", cls="parse-replay", harness="replay_parse", stimulus=beh))
    bzgen.calibrate(rep, vlib.seed() + 5, 4 if tier == "quick" else 12)
    files = []
    spec = [it for it in fmtsession.spec_items("valid", 60, vlib.seed() + 6) if it.valid and not it.exception]
    multi = []
    for it in spec:
        ins = bzfmt.inspect(it.data)
        if len(ins.blocks) >= 3 and len(ins.streams) >= 2:
            multi.append((it, ins))
    for it, ins in multi[: (5 if tier == "quick" else 16)]:
        files.append((it.label, it.data, ins))
    # real encoder output: four blocks at level 1, then a second and third stream
    data = rng.randbytes(330000)
    r = vlib.run([exe, "-1", "-n", "3"], stdin=data)
    if r.rc != 0:
        raise vlib.Infra("cannot compress corpus file")
    z = r.out + bz2.compress(b"second stream " * 2000, 1) + bz2.compress(b"third", 9)
    files.append(("lbzip2_4blocks+libbz2_2streams", z, bzfmt.inspect(z)))
    cases = []
    nfields = 0
    for label, d, ins in files:
        if not ins.valid:
            raise vlib.Infra("corpus file %s is not valid: %s" % (label, ins.reason))
        fields = [("block%d" % i, b.at["crc"][0]) for i, b in enumerate(ins.blocks)]
        fields += [("stream%d" % i, s["crc_at"][0]) for i, s in enumerate(ins.streams)]
        nfields += len(fields)
        big = len(d) > 20000
        for fname, at in fields:
            for bit in range(32):
                bad = bzfmt.flip_bit(d, at + bit)
                ws = (1, 2, 4) if not big else (rng.choice([1, 2, 4]),)
                for W in ws:
                    env = {"VERIF_SCHED_SEED": rng.randrange(50)} if W > 1 else {}
                    if not big and rng.random() < 0.5:
                        env["VERIF_IN_GRANUL"] = rng.choice([32, 64, 256])
                    c = sched.Case("%s %s bit%d|d W=%d %s" % (label, fname, bit, W, env), ["-d", "-n", str(W)], bad, env, kind="expand", timeout=60,
                                   outnull=big)
                    c.field = (label, fname, bit)
                    cases.append(c)
                if not big and bit % 8 == 0:
                    # as FILE operand with -v: the error path through cleanup() must end with status 1 as well
                    c = sched.Case("%s %s bit%d|d -v FILE W=2" % (label, fname, bit), ["-d", "-v", "-n", "2"], bad, {}, kind="expand", timeout=60, mode="file")
                    c.field = (label, fname, bit)
                    cases.append(c)
                if not big:
                    # one 32-bit word per input block (and two): the parser and the retriever are suspended at every word boundary,
                    # so every field is split across calls in whichever way its bit offset dictates
                    for W, g in ((2, 4), (1, 8)):
                        env = {"VERIF_IN_GRANUL": g, "VERIF_SCHED_SEED": rng.randrange(50)}
                        c = sched.Case("%s %s bit%d|d W=%d %s" % (label, fname, bit, W, env), ["-d", "-n", str(W)], bad, env, kind="expand", timeout=60)
                        c.field = (label, fname, bit)
                        cases.append(c)
    runs = sched.run_cases(exe, cases, par=12)
    seen = set()
    for t in runs:
        r = t.run
        rep.add("evaluations")
        seen.add(t.case.field)
        why = None
        if r.timed_out:
            why = "hang"
        elif (r.rc or 0) < 0:
            why = "killed by signal %d" % -r.rc
        elif r.rc != 1:
            why = "exit status %s although a stored CRC bit is flipped" % r.rc
        if why:
            rep.violation("%s: %s" % (t.label, why), sched.save_stimulus("C15", "v%d" % len(rep.violations), t, dict(cls="crc-not-enforced", field=list(t.case.field))))
            if len(rep.violations) >= 8:
                break
    rep.cov["crc_fields"] = nfields
    rep.cov["distinct_nontrivial"] = len(seen)
    rep.cov["rule"] = "one case per (file, CRC field, bit); distinct = distinct (file, field, bit); every case is non-trivial (a stored CRC differs in exactly one bit)"
    rep.cov["exhaustive"] = True
    rep.cov["exhaustive_note"] = "every bit of every stored CRC field of the listed files"
    rep.cov["files"] = [(l, len(d), len(i.blocks), len(i.streams)) for l, d, i in files]
    rep.sample({"file": files[0][0], "blocks": len(files[0][2].blocks), "streams": len(files[0][2].streams)})
    rep.sample({"case": cases[0].label})
    rep.assumptions += ["CRC fields are located with the field map of tools/bzfmt.py (calibrated against BZ2.tla in this run)"]
