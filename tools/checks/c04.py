"""C04 - block boundaries follow the greedy run-length packing rule.
(M) spec/Rle.tla: TLC proves the transcription of collect() equal to the declarative greedy rule for
every input over small alphabets, every capacity and every split into successive buffer calls (and
long runs around 259/518).  (G) the same behaviours are replayed through the real collect() built from
the working tree with encoder_init(max_block_size = cap) (exhaustive over the stated bounds).
(V) process level, both modes: the block boundaries of what the real binary writes (recovered by the
independent inspector) must equal the rule evaluated on the input; the rule function used there is
calibrated against Rle.tla in the same run."""
import os, random
import vlib, sched, inputs, inproc, bzfmt, rlegreedy

LEVEL = "model_checking"


def run(rep, tier, replay):
    rng = random.Random(vlib.seed())
    exe = vlib.build_impl()
    srcdir = os.path.join(os.path.dirname(exe), "src")
    cal = []
    fails = inproc.rle_leg(rep, srcdir, tier, collect_into=cal)
    for line, beh in fails:
        rep.violation("collect() deviates from Rle.tla (greedy packing): %s" % line,
                      dict(kind="inproc", cls="rle-replay", harness="replay_rle", behaviour=beh, failure=line))
    # calibration of the process-level oracle against the specification's answers
    bad = 0
    for b in cal:
        if rlegreedy.canon_len_prefixes(bytes(b["inp"]), 0, b["cap"]) != b["used"]:
            bad += 1
    rep.cov["oracle_calibration_cases"] = len(cal)
    if bad:
        raise vlib.Infra("tools/rlegreedy.py disagrees with Rle.tla on %d of %d cases" % (bad, len(cal)))
    # ---- process level
    fam = inputs.families(rng, tier)
    cases = []
    for name, data in fam:
        if not data:
            continue
        for level, ultra in ((1, False), (1, True)) + (((2, True), (3, False)) if len(data) > 250000 else ()):
            W = rng.choice([1, 2, 3, 5])
            env = {"VERIF_SCHED_SEED": rng.randrange(100)}
            if rng.random() < 0.5:
                env["VERIF_DELAY"] = "read:0=%d" % rng.choice([500, 3000])      # slow producer
            c = sched.Case("%s|c -%d u=%d W=%d %s" % (name, level, ultra, W, env), ["-%d" % level, "-n", str(W)] + (["-u"] if ultra else []),
                           data, env, kind="compress", timeout=180, mode=rng.choice(["stdin", "pipe"]))
            c.level, c.ultra = level, ultra
            cases.append(c)
    runs = sched.run_cases(exe, cases, par=8)
    badruns = sched.judge(rep, runs, "C04")
    sched.report_runs(rep, "C04", exe, badruns, "run")
    nblocks = 0
    for t in runs:
        if t.run.rc != 0 or t.run.timed_out:
            continue
        c = t.case
        ins = bzfmt.inspect(t.run.out)
        if not ins.valid:
            rep.violation("output is not a valid bzip2 file (%s): %s" % (ins.reason, t.label),
                          sched.save_stimulus("C04", "inv%d" % len(rep.violations), t, dict(cls="wrong-result")))
            continue
        got = [len(b.plain) for b in ins.blocks]
        cap = c.level * 100000
        want = rlegreedy.greedy_blocks(c.data, cap, None if c.ultra else cap)
        nblocks += len(got)
        rep.add("sessions")
        if got != want:
            k = next((i for i in range(min(len(got), len(want))) if got[i] != want[i]), min(len(got), len(want)))
            rep.violation("block %d holds %s input bytes, the greedy rule gives %s (%s)" %
                          (k, got[k] if k < len(got) else None, want[k] if k < len(want) else None, t.label),
                          sched.save_stimulus("C04", "b%d" % len(rep.violations), t,
                                              dict(cls="boundary", got=got[:20], want=want[:20], first_diff=k)))
        for i, b in enumerate(ins.blocks):
            if len(b.rle) > cap:
                rep.violation("block %d holds %d run-length encoded bytes (> %d): %s" % (i, len(b.rle), cap, t.label),
                              sched.save_stimulus("C04", "o%d" % len(rep.violations), t, dict(cls="overfull")))
    rep.cov["blocks_checked"] = nblocks
    rep.cov["exhaustive"] = True
    rep.cov["exhaustive_note"] = "exhaustive for the in-process leg over the bounds listed in tools/inproc.py (rle_leg); the process-level leg is sampled"
    rep.sample({"session": runs[0].label})
    rep.assumptions += ["bzfmt.inspect recovers block contents independently of lbzip2's sources",
                        "rlegreedy.py agrees with Rle.tla on every TLC-generated case of this run"]
