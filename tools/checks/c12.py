"""C12 - no data races between threads.
(M) spec/Locks.tla: reader, writer, two workers (one of them the primary thread with init / joins / uninit)
and the main thread as programs over acquire / release / condition wait of the three monitors and the hooked
transitions with the shared variables each reads and writes; TLC explores every interleaving for compress,
expand and copy mode and checks RaceFree (never two threads simultaneously at conflicting accesses),
Guarded (outside the single-threaded phases every access holds the variable's monitor; the one documented
exception is the reader's read of tail_offs), LockOrder (source/sink only inside sched or alone), mutual
exclusion and absence of deadlock, and emits the signature: every (role, event, monitors held) triple.
(V) spec/TraceLocks.tla: traces recorded from perturbed runs of the real binary (compression in both modes,
decompression incl. planted candidates, trailing garbage arriving late, starved slots, -cdf copy) are
accepted only if every event was emitted by a thread of the role and holding exactly the monitors of a
transition of Locks.tla.  (A) the recording binary is built with ThreadSanitizer, so that an access the
hooks do not see (codec state, an unlocked flag test) is reported too: any report is an access outside the
discipline of Locks.tla and a violation."""
import bz2, json, os, random, re
import vlib, campaign, inproc, bzcraft

LEVEL = "model_checking"
TSAN = {"TSAN_OPTIONS": "exitcode=66 halt_on_error=0 report_signal_unsafe=0 report_thread_leaks=0 second_deadlock_stack=1"}


def model(rep):
    def go(mode):
        return mode, inproc.gen("Locks", dict(Mode=mode), ["RaceFree", "Guarded", "LockOrder", "MutualExclusion", "EndsClean", "Export"],
                                "locks_" + mode, workers=1, timeout=1500, spec="SpecD", deadlock=True)
    sig = []
    for mode, (behs, r) in campaign.parallel(go, ["copy", "compress", "expand"], par=3):
        if behs is None:
            raise vlib.Infra("Locks.tla (%s) violates its own properties:\n%s" % (mode, r.text[-2000:]))
        rep.add("states", r.distinct)
        rep.add("transitions", r.generated)
        for b in behs:
            if not b["e"].startswith("("):
                sig.append(dict(mode=mode, role=b["role"], e=b["e"], mon=b["mon"]))
    path = os.path.join(vlib.subdir("c12"), "signature.ndjson")
    with open(path, "w") as f:
        for s in sig:
            f.write(json.dumps(s) + "\n")
    rep.cov["signature_triples"] = len(sig)
    return path


def validate(rep, sigfile, traced, tag):
    """all traces of `traced` concatenated (Start resets); returns list of (Traced, reason)"""
    d = vlib.spec_workdir("tl_" + tag, ["TraceLocks.tla"])
    with open(os.path.join(d, "T.cfg"), "w") as f:
        f.write("SPECIFICATION Spec\nINVARIANTS NotAccepted\nCHECK_DEADLOCK FALSE\n")

    def check(ts, sub):
        cat = os.path.join(d, "cat_%s.ndjson" % sub)
        n = 0
        with open(cat, "w") as f:
            for t in ts:
                for line in open(t.trace):
                    if line.strip():
                        f.write(line if line.endswith("\n") else line + "\n")
                        n += 1
        r = vlib.tlc(d, "TraceLocks.tla", "T.cfg", env={"TRACE": cat, "SIG": sigfile}, workers=1, timeout=900,
                     extra=["-metadir", os.path.join(d, "md_" + sub)])
        ok = r.violated == ["NotAccepted"]
        if not ok and not r.rejects and not (r.completed or r.distinct):
            raise vlib.Infra("TLC failed on %s:\n%s" % (cat, r.text[-2000:]))
        return ok, n, r
    bad = []
    ok, n, r = check(traced, "all")
    rep.add("trace_events_validated", n)
    if ok:
        return bad
    # localise: validate each trace on its own
    for i, t in enumerate(traced):
        ok1, n1, r1 = check([t], "one%d" % i)
        if not ok1:
            why = "event %s (%s): %s" % r1.rejects[-1] if r1.rejects else "event %d not explained" % r1.distinct
            bad.append((t, why))
            if len(bad) >= 4:
                break
    if not bad:
        raise vlib.Infra("concatenated trace rejected but every single trace accepted")
    return bad


def pty_runs(exe, text, comp):
    """-v with standard error on a pseudo-terminal and a regular FILE operand: the only configuration in which the
    writer thread's progress display runs.  Returns [(label, everything written to the terminal)]."""
    import pty, select, subprocess, time
    out = []
    d = vlib.subdir("c12pty")
    for label, args, name, data in (("compress -v on a terminal", ["-1", "-n", "3", "-v", "-k"], "p.txt", text * 2),
                                    ("decompress -v on a terminal", ["-d", "-n", "3", "-v", "-k", "-f"], "q.bz2", comp)):
        with open(os.path.join(d, name), "wb") as f:
            f.write(data)
        master, slave = pty.openpty()
        env = dict(os.environ)
        env.update(TSAN)
        p = subprocess.Popen(vlib.launch_prefix() + [exe] + args + [name], cwd=d, stdin=subprocess.DEVNULL, stdout=subprocess.DEVNULL, stderr=slave,
                             env=env, start_new_session=True)
        os.close(slave)
        buf, t0 = b"", time.time()
        while time.time() - t0 < 300:
            r, _, _ = select.select([master], [], [], 0.2)
            if r:
                try:
                    chunk = os.read(master, 65536)
                except OSError:
                    break
                if not chunk:
                    break
                buf += chunk
            elif p.poll() is not None:
                break
        if p.poll() is None:
            p.kill()
        p.wait()
        os.close(master)
        out.append((label, buf.decode("latin1")))
    return out


def run(rep, tier, replay):
    rng = random.Random(vlib.seed())
    sigfile = model(rep)
    exe = vlib.build_impl(name="impl_tsan", cc="clang", extra=["-fsanitize=thread"])
    text = bytes(rng.choice(b"abcdefgh \n") for _ in range(1500000))
    mixed = text[:400000] + rng.randbytes(300000) + b"\0" * 300000
    comp = bz2.compress(text[:600000], 1) + bz2.compress(mixed[300000:800000], 1)
    garbage = rng.randbytes(70000)
    seeds = [1, 2] if tier == "quick" else [1, 2, 3, 4, 5, 6]
    jobs = []
    for sd in seeds:
        pert = {"VERIF_SCHED_SEED": str(sd), "VERIF_SCHED_LEVEL": "2"}
        for n in ((2, 5) if tier == "quick" else (1, 2, 3, 5, 8)):
            jobs.append(("compress -1 -n%d seed%d" % (n, sd), ["-1", "-n", str(n)], mixed, pert))
            jobs.append(("compress --sequential -n%d seed%d" % (n, sd), ["-1", "--sequential", "-n", str(n)], text[:700000], pert))
            jobs.append(("decompress -n%d seed%d" % (n, sd), ["-d", "-n", str(n)], comp, dict(pert, VERIF_IN_GRANUL="32768", VERIF_OUT_GRANUL="16384")))
            jobs.append(("decompress starved -n%d seed%d" % (n, sd), ["-d", "-n", str(n)], comp,
                         dict(pert, VERIF_IN_GRANUL="4096", VERIF_IN_SLOTS="2", VERIF_OUT_SLOTS="2", VERIF_OUT_GRANUL="4096")))
        # trailing garbage that keeps arriving after the parser has finished (AvailDrop, SrcClose / SrcStop)
        for slots in ("4", "64"):
            jobs.append(("decompress late garbage slots%s seed%d" % (slots, sd), ["-d", "-n", "3"], bz2.compress(text[:50000], 1) + garbage,
                         dict(pert, VERIF_IN_GRANUL="4096", VERIF_IN_SLOTS=slots, VERIF_DELAY="read:0=3000")))
        jobs.append(("decompress planted F1 seed%d" % sd, ["-d", "-n", "3"], bzcraft.f1_file(1024)[0], dict(pert, VERIF_IN_GRANUL="1024", VERIF_OUT_GRANUL="512")))
        jobs.append(("decompress planted F2 seed%d" % sd, ["-d", "-n", "4"], bzcraft.f2_file(1024)[0], dict(pert, VERIF_IN_GRANUL="1024")))
        # end of file as a separate, late event: the input is an exact multiple of the read size and reads are slow
        jobs.append(("compress exact multiple, late EOF seed%d" % sd, ["-1", "-n", "3"], mixed[:1000000], dict(pert, VERIF_DELAY="read:0=15000")))
        jobs.append(("copy exact multiple, late EOF seed%d" % sd, ["-cdf"], (b"not bzip2 " * 100000)[:262144], dict(pert, VERIF_DELAY="read:0=15000")))
        for size in (0, 1000, 70000, 200000, 900000):
            jobs.append(("copy %d seed%d" % (size, sd), ["-cdf"], (b"not bzip2 " * 100000)[:size], pert))
        jobs.append(("copy slow reads seed%d" % sd, ["-cdf"], (b"not bzip2 " * 100000)[:400000], dict(pert, VERIF_DELAY="read:0=2000")))
        jobs.append(("copy slow writes seed%d" % sd, ["-cdf"], (b"not bzip2 " * 100000)[:400000], dict(pert, VERIF_DELAY="write:0=2000")))

    def go(j):
        label, args, data, env = j
        kind = "copy" if "-cdf" in args else None
        return campaign.traced_run(exe, args, label, stdin=data, env=dict(env, **TSAN), timeout=300, kind=kind)
    traced = campaign.parallel(go, jobs, par=10)
    # ---- the progress display (-v, stderr on a terminal, regular FILE operand) runs in the writer thread
    for label, err in pty_runs(exe, text, comp):
        rep.add("evaluations")
        rep.add("runs_under_tsan")
        reports = re.findall(r"WARNING: ThreadSanitizer: ([^\n(]+)", err)
        if reports:
            loc = re.findall(r"#0 (\S+) (\S+?):(\d+)", err)[:2]
            where = ", ".join("%s (%s:%s)" % (f, os.path.basename(p), ln) for f, p, ln in loc)
            rep.violation("%s: %s: access outside the lock discipline of Locks.tla at %s" % (label, reports[0].strip(), where),
                          dict(kind="run", cls="tsan-report", label=label, report=err[:1500]))
    good = []
    for t in traced:
        rep.add("evaluations")
        rep.add("runs_under_tsan")
        err = t.run.err.decode("latin1")
        reports = re.findall(r"WARNING: ThreadSanitizer: ([^\n(]+)", err)
        if t.run.timed_out:
            rep.violation("%s: hang" % t.label, dict(kind="run", cls="hang", argv=t.argv[1:], env=t.env))
            continue
        if reports:
            loc = re.findall(r"#0 (\S+) (\S+?):(\d+)", err)[:2]
            glob = re.findall(r"Location is global '([^']+)'", err)[:1]
            where = ", ".join("%s (%s:%s)" % (f, os.path.basename(p), ln) for f, p, ln in loc) + (" on '%s'" % glob[0] if glob else "")
            rep.violation("%s: %s: access outside the lock discipline of Locks.tla at %s" % (t.label, reports[0].strip(), where),
                          dict(kind="run", cls="tsan-report", argv=t.argv[1:], env=t.env, report=err[:1500]))
            if len(rep.violations) >= 6:
                break
            continue
        if t.run.rc not in (0, 1, 4):
            raise vlib.Infra("%s: unexpected exit status %s: %s" % (t.label, t.run.rc, err[-400:]))
        good.append(t)
    for t, why in validate(rep, sigfile, good, "c12"):
        rep.violation("%s: trace is not a behaviour of the locking protocol: %s" % (t.label, why),
                      dict(kind="trace", cls="lock-signature", argv=t.argv[1:], env=t.env, reason=why))
    rep.add("traces_validated_against_impl", len(good))
    ev = {}
    for t in good:
        for line in open(t.trace):
            m = re.search(r'"mon":(\d+),"e":"(\w+)"', line)
            if m:
                ev[(m.group(2), int(m.group(1)))] = ev.get((m.group(2), int(m.group(1))), 0) + 1
    rep.cov["distinct_event_lock_pairs_observed"] = len(ev)
    rep.cov["nested_lock_events_observed"] = sum(v for (e, m), v in ev.items() if m in (3, 5))
    for need in ("AvailDrop", "SrcClose", "SeqPark", "CopyTerm", "WWait"):
        if not any(e == need for e, m in ev):
            rep.assumptions.append("event %s was not observed in this run's traces" % need)
    rep.cov["exhaustive"] = False
    rep.sample({"label": good[0].label if good else None})
    rep.assumptions += ["the TLA+ model covers the shared state of process.c / compress.c / expand.c at the hooked transitions; accesses the hooks "
                        "do not see are covered only by the ThreadSanitizer-built recorder on the sampled runs",
                        "ThreadSanitizer (clang 14) is trusted as race observer"]
