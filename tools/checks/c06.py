"""C06 - every conforming bzip2 file is decompressed.
(G) spec/BZ2.tla generates valid files that vary every legal degree of freedom (2-6 tables incl. unused
and malformed unused ones, arbitrary complete length vectors up to 20 bits, delta-code detours, arbitrary
selector sequences and surplus selectors, randomised blocks, any primary index, bit offsets through
preceding blocks, concatenated streams of different levels, trailing non-header data); tools/bzfmt.py
serialises them (calibrated against the spec's own bytes in the same run).  Added: libbz2 output at
levels 1-9, the repository's specimens, and legal extremes built in the block-sorted domain (900000-byte
block with 18001 groups, 32767 selectors, randomised blocks beyond the first flipped byte).  (V) the real
binary must exit 0 with exactly the specified plaintext; only the two documented exceptions may be
rejected.
(M+G) spec/Imtf.tla, the decoder's sliding-lists inverse move-to-front, model-checked against the naive list and
replayed through the real mtf_one() across pool rebuilds (a rebuild takes 7936 front moves from positions >= 16: at
process level only the crafted 900000-byte blocks get there, and a wrong list then shows only as a CRC mismatch;
the replay names the call and also checks where the rows lie in the pool)."""
import random
import vlib, sched, fmtsession, bzgen

LEVEL = "other"


def run(rep, tier, replay):
    rng = random.Random(vlib.seed())
    exe = vlib.build_impl()
    # (M+G) spec/Imtf.tla: the sliding-lists inverse move-to-front of decode.c (fast path, general path, rebuild of the
    # pool) checked against the naive list for every call sequence (small constants) and, with the code's own constants,
    # followed over call sequences long enough to force rebuilds and replayed through the real mtf_one()
    import inproc, os
    for why, beh in inproc.imtf_leg(rep, os.path.join(os.path.dirname(exe), "src"), tier):
        rep.violation(why, dict(kind="inproc", cls="imtf-replay", harness="replay_imtf", stimulus=beh))
    bzgen.calibrate(rep, vlib.seed(), 6 if tier == "quick" else 20)
    items = fmtsession.spec_items("valid", 160 if tier == "quick" else 2000, vlib.seed())
    items += [it for it in fmtsession.specimen_items() if it.valid]
    items += fmtsession.third_party_items(rng, tier)
    items += [it for it in fmtsession.crafted_items(tier) if it.valid]
    cases = fmtsession.decode_cases(items, rng)
    runs = sched.run_cases(exe, cases, par=8)
    seen = set()
    for t in runs:
        it = t.case.item
        rep.add("evaluations")
        r = t.run
        why = None
        if r.timed_out:
            why = "hang"
        elif (r.rc or 0) < 0:
            why = "killed by signal %d" % -r.rc
        elif it.exception:
            rep.add("documented_exception_inputs")
            if r.rc == 0 and r.out != it.plain:
                why = "accepted with wrong bytes"
        elif r.rc != 0:
            why = "valid file rejected: exit %s, %s" % (r.rc, r.err[-150:].decode("latin1").strip())
        elif r.out != it.plain:
            why = "wrong bytes (%d, expected %d)" % (len(r.out), len(it.plain))
        elif r.err:
            why = "diagnostic on a valid file: %r" % r.err[:100]
        if it.nontrivial:
            seen.add(vlib.digest(it.data))
        if why and it.label not in [v[0] for v in rep.violations][:0]:
            rep.violation("%s: %s [%s]" % (it.label, why, t.label),
                          sched.save_stimulus("C06", "v%d" % len(rep.violations), t, dict(cls="valid-rejected", origin=it.origin, why=why)))
            if len(rep.violations) >= 8:
                break
    rep.cov["distinct_nontrivial"] = len(seen)
    rep.cov["rule"] = ("inputs: BZ2.tla valid-mode files (TLC simulation, seeded), libbz2 output, tests/*.bz2, legal extremes; "
                       "distinct by content hash; non-trivial = contains at least one block")
    rep.cov["explanation"] = ("specification-derived generation of valid files (TLC) replayed into the real binary; expected plaintext "
                              "from the calibrated serialiser/inspector; not exhaustive")
    rep.sample({"item": items[0].label, "bytes": len(items[0].data), "origin": items[0].origin})
    rep.sample({"item": items[-1].label, "bytes": len(items[-1].data), "origin": items[-1].origin})
    rep.assumptions += ["tools/bzfmt.py agrees with BZ2.tla on the calibration sample of this run",
                        "randomised blocks longer than 617 bytes and 900000-byte blocks are beyond what TLC builds; they come from tools/bzfmt.py and are cross-checked with libbz2"]
