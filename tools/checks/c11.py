"""C11 - schedulers are deadlock-free, bounded and order-preserving.
(M) MCCompress / MCExpand with the binary's own policy constants; (V) perturbed, traced runs
of the real binary in the starved-slot regime the model explores, validated by TLC."""
import os, random
import vlib, campaign, sched, shapes, bzcraft, mc

LEVEL = "model_checking"


def stimuli(rng, tier):
    """(cases for compression, cases for decompression)"""
    seeds = range(6 if tier == "quick" else 20)
    comp, dec = [], []
    inputs = [("empty", b""), ("one", b"x"), ("r3k", rng.randbytes(3000)),
              ("runs", b"".join(bytes([rng.randrange(3)]) * rng.choice([1, 3, 4, 5, 255, 259, 260]) for _ in range(400))),
              ("r40k", rng.randbytes(40000)), ("z60k", b"\0" * 60000)]
    for name, data in inputs:
        for s in seeds:
            W = rng.choice([1, 2, 3, 5])
            for ultra in (False, True):
                env = {"VERIF_SCHED_SEED": s, "VERIF_IN_GRANUL": rng.choice([1000, 4096, 10000])}
                slots = rng.choice([None, (2, 3), (W, 3), (2 * W, 2 * W + 2)])
                if slots:
                    env["VERIF_IN_SLOTS"], env["VERIF_OUT_SLOTS"] = slots
                args = ["-n", str(W), "-1"] + (["-u"] if ultra else [])
                comp.append(sched.Case("%s|c W=%d u=%d %s" % (name, W, ultra, env), args, data, env, kind="compress"))
    # decompression: planted-pattern files sized against tiny I/O blocks, starved slots
    files = []
    for iob in (256, 1024):
        d, p = bzcraft.f1_file(iob)
        files.append(("f1_%d" % iob, d, p, iob))
        d, p = bzcraft.f2_file(iob)
        files.append(("f2_%d" % iob, d, p, iob))
    g, p = bzcraft.garbage_with_block()
    files.append(("garbage", g, p, 64))
    import bz2
    multi = bz2.compress(rng.randbytes(5000), 1) + bz2.compress(b"abc" * 3000, 9) + bz2.compress(b"", 5)
    files.append(("multi", multi, bz2.decompress(multi), 128))
    for name, data, plain, iob in files:
        for s in seeds:
            for W, tin, tout, og in ((3, 4, 3, 4096), (2, 2, 3, 8192), (3, 3, 4, 2048), (4, 16, 64, 65536)):
                env = {"VERIF_SCHED_SEED": s, "VERIF_IN_GRANUL": iob, "VERIF_OUT_GRANUL": og,
                       "VERIF_IN_SLOTS": tin, "VERIF_OUT_SLOTS": tout}
                dec.append(sched.Case("%s|d W=%d %s" % (name, W, env), ["-d", "-n", str(W)], data, env,
                                      expect_out=plain, kind="expand", timeout=20))
    return comp, dec


def run(rep, tier, replay):
    rng = random.Random(vlib.seed())
    exe = vlib.build_impl()
    # (M+G) spec/Queues.tla: the ring-buffer deque and the binary-heap priority queue every pipeline queue is made of, transcribed
    # and checked against sequence / bag semantics for every operation sequence; each replayed through the real macros / functions
    import inproc as _inproc, os as _os
    for why, beh in _inproc.queues_leg(rep, _os.path.join(_os.path.dirname(exe), "src"), tier):
        rep.violation(why, dict(kind="inproc", cls="queue-replay", harness="replay_queues", stimulus=beh))
    pol = sched.policy_of(exe)
    rep.cov["policy"] = pol
    # ---- (M)
    ctab = [t for t in shapes.COMPRESS_QUICK if t[0] in ("cq_def", "cq_seq", "cq_def_starved", "cq_seq_starved",
                                                          "cq_seq_exact", "cq_w1")] if tier == "quick" else shapes.COMPRESS_THOROUGH
    xtab = [t for t in shapes.EXPAND_QUICK if t[0] in ("xq_cand_ok", "xq_garbage", "xq_straddle", "xq_f2", "xq_w1",
                                                        "xq_parse_err")]
    if tier == "thorough":
        xtab = shapes.EXPAND_THOROUGH_FIXED + [shapes.random_expand_shape(rng, i) for i in range(6)]
    mbad = sched.mc_legs(rep, [("compress", ctab), ("expand", xtab)], pol, timeout=450 if tier == "thorough" else 900)
    for name, c, r in mbad:
        rep.sample({"model_counterexample": name, "violated": r.violated, "temporal": r.temporal, "shape": c})
    # ---- (V)
    comp, dec = stimuli(rng, tier)
    runs = sched.run_cases(exe, comp + dec)
    import bz2
    for t in runs:                                   # expected result of compression = libbz2 round trip
        if t.case.kind == "compress" and t.run.rc == 0 and not t.run.timed_out:
            try:
                if bz2.decompress(t.run.out) != t.case.data:
                    t.case.expect_out = b"\0impossible"
            except Exception:
                t.case.expect_out = b"\0impossible"
    bad = sched.judge(rep, runs, "C11")
    sched.report_runs(rep, "C11", exe, bad, "run")
    rej = campaign.validate([t for t in runs if not t.run.timed_out or True], rep, strict=True)
    pol_rej = sched.report_rejections(rep, "C11", rej, "trace")
    rep.cov.setdefault("traces_validated_against_impl", 0)
    rep.sample({"run": runs[0].label, "events": runs[0].events})
    rep.sample({"run": runs[-1].label, "events": runs[-1].events})
    rep.cov["exhaustive"] = False
    rep.assumptions += ["TLC explores every interleaving only for the small constants listed in tools/shapes.py",
                        "real runs are sampled (perturbation seeds); hooks log at linearization points under the protecting monitor"]
    # undecided situations: the model disagrees with the code but nothing was observed
    undecided = []
    if mbad and not rep.violations and not rep.known_hits:
        undecided.append("model counterexample(s) not reproduced on the binary: %s" % [m[0] for m in mbad])
    if pol_rej and not rep.violations and not rep.known_hits:
        undecided.append("scheduling policy of the code differs from the model-checked one: %s" % pol_rej[0][1])
    rep.cov["unconfirmed_model_counterexample"] = [m[0] for m in mbad]
    rep.cov["policy_rejections"] = len(pol_rej)
    if undecided:
        raise vlib.Infra("; ".join(undecided))
