"""C18 - multiple operands are processed independently.
(M) spec/FileOps.tla defines the effect of an operand list as the fold of the single-operand effects and
the exit status as 4 if any operand was skipped with a warning, 0 otherwise, 1 at the first fatal error
with the earlier operands complete; MCCompress / MCExpand establish that a run ends in the state the next
operand's init() expects (Termination: Quiescent, collect_token and unfinished_work as at start).
(G) TLC enumerates operand lists (mixes of processed, skipped, empty-suffix, hard-linked, missing, corrupt
operands) x modes x option sets; each list is replayed in one invocation of the real binary and must leave
exactly the files, contents, metadata and status of the fold.  (V) hooked multi-operand runs: the trace of
one process is a sequence of Start..Uninit segments that TLC validates without resetting the variables
that init() does not reset."""
import bz2, os, random
import vlib, campaign, inproc, fileops, sched, shapes

LEVEL = "model_checking"


def sets(xs):
    return "{%s}" % ", ".join('"%s"' % x for x in xs)


def run(rep, tier, replay):
    rng = random.Random(vlib.seed())
    exe = vlib.build_impl()
    pol = sched.policy_of(exe)
    mbad = sched.mc_legs(rep, [("compress", [t for t in shapes.COMPRESS_QUICK if t[0] in ("cq_seq", "cq_seq_exact", "cq_def")]),
                               ("expand", [t for t in shapes.EXPAND_QUICK if t[0] in ("xq_garbage", "xq_w1")])], pol)
    opts = "{{}, {\"k\"}, {\"c\"}, {\"f\"}, {\"t\"}, {\"k\", \"f\"}, {\"c\", \"f\"}, {\"v\"}, {\"k\", \"v\"}, {\"f\", \"v\"}, {\"c\", \"v\"}}"
    defs = dict(Modes=sets(["compress", "decompress"]), OptSets=opts, Kinds=sets(["regular", "hardlink", "missing"]),
                Suffixes=sets(["", ".bz2"]), Existing=sets(["none", "file"]), Contents=sets(["good", "bad"]), ModeBits=sets(["0644", "4755"]), ErrModes="{FALSE, TRUE}", Stems="{\"x\"}")
    behs, r = inproc.gen("FileOps", dict(MaxOperands=2), ["Export"], "fo18", defs=defs, timeout=1500, workers=8, xmx="12g")
    if behs is None:
        raise vlib.Infra("FileOps.tla failed: " + r.text[-1500:])
    rep.add("states", r.distinct)
    rep.add("transitions", r.generated)
    lists = [b for b in behs if len(b["ops"]) >= 2]
    total = len(lists)
    n = 2500 if tier == "quick" else 20000
    if len(lists) > n:
        lists = rng.sample(lists, n)
    # three-operand lists: compose from the model by folding (status and effects are per operand)
    res = campaign.parallel(lambda ib: (ib[1], fileops.replay(exe, ib[1], ib[0])), list(enumerate(lists)), par=12)
    mix = {}
    for sc, why in res:
        rep.add("traces_validated_against_impl")
        key = "/".join(e["outcome"] for e in sc["effects"])
        mix[key] = mix.get(key, 0) + 1
        if why:
            rep.violation("%s -%s%s, operands %s: %s" % (sc["mode"], "".join(sorted(sc["opts"])) or "-", " 2>/dev/full" if sc.get("errfull") else "",
                                                       [(o["kind"], o["suffix"], o["existing"], o["content"]) for o in sc["ops"]], why),
                          dict(kind="fileops", cls="operand-list", scenario=sc, why=why))
            if len(rep.violations) >= 8:
                break
    rep.cov["operand_lists_in_model"] = total
    rep.cov["outcome_mixes"] = mix
    # ---- hooked multi-operand runs (one process, several Start..Uninit segments)
    d = vlib.subdir("multi")
    cases = []
    for k in range(4 if tier == "quick" else 20):
        for ultra in (False, True):
            wd = os.path.join(d, "c%d%d" % (k, ultra))
            os.makedirs(wd)
            names = []
            for j in range(3):
                nm = "f%d" % j
                with open(os.path.join(wd, nm), "wb") as f:
                    f.write(rng.randbytes(rng.choice([0, 1, 2500, 9000])) if j != 1 else b"")
                names.append(nm)
            t = campaign.traced_run(exe, ["-1", "-n", "2", "-k"] + (["-u"] if ultra else []) + names, "multi c u=%d %d" % (ultra, k),
                                    env={"VERIF_SCHED_SEED": k, "VERIF_IN_GRANUL": 1000}, cwd=wd, kind="compress", timeout=60)
            cases.append(t)
            if t.run.rc != 0:
                rep.violation("multi-operand compression failed: rc=%s %s" % (t.run.rc, t.run.err[-150:]), dict(kind="run", cls="wrong-result", label=t.label))
            # decompress all three again in one invocation
            t2 = campaign.traced_run(exe, ["-d", "-n", "2", "-k", "-f"] + [n + ".bz2" for n in names], "multi d %d" % k,
                                     env={"VERIF_SCHED_SEED": k, "VERIF_IN_GRANUL": 64}, cwd=wd, kind="expand", timeout=60)
            cases.append(t2)
            if t2.run.rc != 0:
                rep.violation("multi-operand decompression failed: rc=%s %s" % (t2.run.rc, t2.run.err[-150:]), dict(kind="run", cls="wrong-result", label=t2.label))
    rej = campaign.validate(cases, rep, strict=True)
    pol_rej = sched.report_rejections(rep, "C18", rej, "trace")
    rep.cov["exhaustive"] = False
    rep.sample({k: lists[0][k] for k in ("mode", "opts", "ops", "status")})
    rep.sample({"multi_operand_trace_events": cases[0].events})
    rep.cov["unconfirmed_model_counterexample"] = [m[0] for m in mbad]
    rep.cov["policy_rejections"] = len(pol_rej)
    if rep.violations:
        return
    if mbad:
        raise vlib.Infra("model counterexample(s) not reproduced on the binary: %s" % [m[0] for m in mbad])
    if pol_rej:
        raise vlib.Infra("scheduling policy of the code differs from the model-checked one: %s" % pol_rej[0][1])
