"""C14 - the block-header scanner matches exactly the header pattern.
(M) spec/Scan.tla: all 96 + 12544 entries of the working tree's automaton tables (src/scantab.h) are
compared by TLC with the definition of the KMP automaton of 0x314159265359 (the inductive step of the
automaton's invariant: it covers every input).  (G) TLC-generated bit streams (pattern at every bit
offset, near misses, two occurrences, patterns cut by the block end, several starting offsets, buffered
bits and skip distances) are replayed through the real scan(); what it reports is judged by the contract:
exactly the occurrences that lie wholly inside the block, none lost beyond start+skip+31."""
import os
import vlib, inproc

LEVEL = "model_checking"


def run(rep, tier, replay):
    exe = vlib.build_impl()
    srcdir = os.path.join(os.path.dirname(exe), "src")
    for why, beh in inproc.scan_leg(rep, srcdir, tier):
        rep.violation(why, dict(kind="inproc", cls="scan-replay", harness="replay_scan", stimulus=beh))
    rep.cov["exhaustive"] = True
    rep.cov["exhaustive_note"] = "exhaustive over the automaton tables (all states x all bits/bytes); the scan() routine is replayed on the finite stimulus family listed in tools/inproc.py (scan_leg)"
    rep.assumptions += ["harness/replay_scan.c only positions the bit stream and reads back its position"]
