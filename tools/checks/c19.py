"""C19 - -cdf passes non-bzip2 data through unchanged.
(M) spec/Copy.tla + MCCopy: every interleaving of reader and writer of the copy loop for small inputs:
buffers reach the writer in order and exactly once, slots are conserved, SIGUSR2 is raised exactly once
and only after the last buffer was written, no deadlock, termination.  (G/V) the real binary with -c -d -f
on inputs that do not begin with a stream header - all lengths 0..5, every proper prefix and near miss of
the magic, sizes around the 64 KiB copy buffer and multi-megabyte - from a regular file and from pipes
fragmented at random and at adversarial points: standard output must equal the input, status 0, and the
recorded trace must be a behaviour of Copy.  Inputs that do begin with a header must behave exactly as
without -f."""
import subprocess, bz2, os, random
import vlib, campaign, sched

LEVEL = "model_checking"


def mc(rep):
    d = vlib.spec_workdir("mccopy", ["Copy.tla", "MCCopy.tla", "CopyInd.tla"])
    for n in (0, 1, 2, 4):
        for e in ("TRUE", "FALSE"):
            with open(os.path.join(d, "C.cfg"), "w") as f:
                f.write("SPECIFICATION FairSpec\nCONSTANTS NReads = %d\n Exact = %s\nINVARIANTS CDataInv NoDeadlock SignalledAtEnd IndHolds\nPROPERTIES Live IndRefines\nCHECK_DEADLOCK FALSE\n" % (n, e))
            r = vlib.tlc(d, "MCCopy.tla", "C.cfg", workers=2, timeout=300)
            if not r.ok:
                raise vlib.Infra("MCCopy fails for NReads=%d Exact=%s:\n%s" % (n, e, r.text[-1500:]))
            rep.add("states", r.distinct)
            rep.add("transitions", r.generated)


def induction(rep):
    """CopyInd.tla: the inductive invariant of the copy loop for every input length (Apalache)"""
    d = vlib.spec_workdir("copyind", ["CopyInd.tla"])
    steps = [("initiation", ["--init=IndInit", "--inv=IndInv", "--length=0"]),
             ("consecution", ["--init=IndInv", "--inv=IndInv", "--length=1"]),
             ("IndInv implies Safe", ["--init=IndInv", "--inv=Safe", "--length=0"])]
    for name, args in steps:
        p = subprocess.run(["timeout", "600", "apalache-mc", "check", "--cinit=ConstInit", "--out-dir=" + os.path.join(d, "out")] + args + ["CopyInd.tla"],
                           cwd=d, capture_output=True, text=True)
        txt = p.stdout + p.stderr
        if "The outcome is: NoError" not in txt:
            if "The outcome is: Error" in txt or "violation" in txt.lower():
                raise vlib.Infra("CopyInd.tla: %s fails (the invariant is not inductive):\n%s" % (name, txt[-1500:]))
            raise vlib.Infra("apalache-mc failed on CopyInd.tla (%s):\n%s" % (name, txt[-1500:]))
        rep.add("apalache_obligations_discharged")


def run(rep, tier, replay):
    rng = random.Random(vlib.seed())
    exe = vlib.build_impl()
    mc(rep)
    induction(rep)
    ins = [("len%d" % n, bytes(rng.randrange(256) for _ in range(n))) for n in range(0, 6)]
    ins += [("B", b"B"), ("BZ", b"BZ"), ("BZh", b"BZh"), ("BZh0", b"BZh0tail"), ("BZh:", b"BZh:tail"), ("bzh9", b"bzh9tail"),
            ("BZH9", b"BZH9tail"), ("BZ h", b"BZ h1"), ("zeros4", bytes(4))]
    for n in (65535, 65536, 65537, 65540, 131071, 131072, 131073, 131076, 196612):
        ins.append(("size%d" % n, rng.randbytes(n)))
    ins.append(("big3m", rng.randbytes(3 << 20)))
    if tier == "thorough":
        ins += [("rnd%d" % i, rng.randbytes(rng.randrange(0, 400000))) for i in range(40)]
    cases = []
    for name, data in ins:
        variants = [("stdin", None, {}), ("pipe", None, {}), ("pipe", {"VERIF_IO_SEED": rng.randrange(1000)}, {}),
                    ("stdin", {"VERIF_IO_SEED": rng.randrange(1000)}, {"VERIF_SCHED_SEED": rng.randrange(100)}),
                    ("cfile", None, {"VERIF_DELAY": "read:0=2000"})]
        for mode, shim, env in variants:
            c = sched.Case("%s|-cdf %s%s %s" % (name, mode, " shim" if shim else "", env), ["-c", "-d", "-f"], data, env, expect_out=data,
                           kind="expand", mode=mode, shim=shim, timeout=25)
            cases.append(c)
    # inputs that begin with a stream header: exactly as plain decompression
    good = bz2.compress(b"real bzip2 data\n" * 100)
    hdr = [("valid", good), ("truncated", good[:-7]), ("damaged", good[:20] + bytes([good[20] ^ 0x40]) + good[21:]), ("header_only", b"BZh9")]
    pairs = []
    for name, data in hdr:
        a = sched.Case("%s|-cd" % name, ["-c", "-d", "-n", "2"], data, {}, kind="expand", timeout=25)
        b = sched.Case("%s|-cdf" % name, ["-c", "-d", "-f", "-n", "2"], data, {}, kind="expand", timeout=25)
        cases += [a, b]
        pairs.append((a, b))
    runs = sched.run_cases(exe, cases, par=8)
    byc = {id(t.case): t for t in runs}
    bad = sched.judge(rep, [t for t in runs if t.case.expect_out is not None], "C19")
    sched.report_runs(rep, "C19", exe, bad, "run")
    for a, b in pairs:
        ta, tb = byc[id(a)], byc[id(b)]
        if (ta.run.rc, ta.run.out) != (tb.run.rc, tb.run.out) and not (ta.run.rc == tb.run.rc == 1):
            rep.violation("input with a stream header behaves differently with -f: %s: status %s/%s, %d/%d bytes" %
                          (a.label, ta.run.rc, tb.run.rc, len(ta.run.out), len(tb.run.out)),
                          sched.save_stimulus("C19", "h%d" % len(rep.violations), tb, dict(cls="force-changes-decoding")))
    rej = campaign.validate(runs, rep, strict=True)
    sched.report_rejections(rep, "C19", rej, "trace")
    rep.cov.setdefault("traces_validated_against_impl", 0)
    rep.cov["exhaustive"] = False
    rep.sample({"input": ins[7][0], "bytes": len(ins[7][1])})
    rep.sample({"run": runs[0].label, "events": runs[0].events})
    rep.assumptions += ["pipe fragmentation through harness/preload_io.c and kernel pipes"]
