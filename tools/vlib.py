#!/usr/bin/python3
"""Common machinery for the /verif checks: scratch space, building lbzip2 from the
current /repo working tree with the hooks on, running it, running TLC, validating
recorded traces against the TLA+ trace specifications, writing evidence."""
import atexit, hashlib, json, os, random, re, shutil, signal, subprocess, sys, tempfile, threading, time
from concurrent.futures import ThreadPoolExecutor

VERIF = os.path.dirname(os.path.dirname(os.path.abspath(__file__)))
REPO = os.environ.get("VERIF_REPO", "/repo")
SPEC = os.path.join(VERIF, "spec")
TLA_CP = "/opt/veriftools/tla/tla2tools.jar:/opt/veriftools/tla/CommunityModules-deps.jar"
NCPU = os.cpu_count() or 4
CFLAGS = ["-O1", "-g", "-pthread", "-D_XOPEN_SOURCE=700", "-D_FILE_OFFSET_BITS=64",
          '-DPACKAGE_NAME="lbzip2"', '-DPACKAGE_VERSION="devel"']
GUARD = "-DKJN_LBZIP2_VERIF"


class Infra(Exception):
    """Infrastructure failure: the check can neither claim nor refute the property."""


# ---------------------------------------------------------------- scratch space
_scratch = None


def scratch():
    global _scratch
    if _scratch is None:
        base = os.environ.get("VERIF_SCRATCH", "/var/tmp")
        os.makedirs(base, exist_ok=True)
        for n in os.listdir(base):            # scratch of checks that were killed long ago
            p = os.path.join(base, n)
            try:
                if n.startswith("verif.") and time.time() - os.stat(p).st_mtime > 6 * 3600:
                    shutil.rmtree(p, ignore_errors=True)
            except OSError:
                pass
        _scratch = tempfile.mkdtemp(prefix="verif.", dir=base)
        atexit.register(lambda: shutil.rmtree(_scratch, ignore_errors=True))
    return _scratch


def subdir(name):
    d = os.path.join(scratch(), name)
    os.makedirs(d, exist_ok=True)
    return d


def seed():
    try:
        return int(os.environ.get("VERIF_SEED", "1"))
    except ValueError:
        return 1


# ---------------------------------------------------------------- build
def _cc(args):
    r = subprocess.run(args, capture_output=True, text=True)
    return r.returncode, r.stderr


def build_impl(name="impl", hooks=True, extra=(), srcdir=None, cc="gcc"):
    """Compile the current /repo/src (copied first, so nothing is written to /repo)
    into <scratch>/<name>/lbzip2.  Asserts stay enabled (no -DNDEBUG)."""
    out = subdir(name)
    src = os.path.join(out, "src")
    if os.path.exists(src):
        shutil.rmtree(src)
    shutil.copytree(srcdir or os.path.join(REPO, "src"), src)
    cfiles = sorted(f for f in os.listdir(src) if f.endswith(".c"))
    flags = CFLAGS + ([GUARD] if hooks else []) + list(extra)
    jobs = []
    for f in cfiles:
        o = os.path.join(out, f[:-2] + ".o")
        jobs.append([cc] + flags + ["-c", os.path.join(src, f), "-o", o])
    with ThreadPoolExecutor(max_workers=min(NCPU, len(jobs))) as ex:
        res = list(ex.map(_cc, jobs))
    for (rc, err), j in zip(res, jobs):
        if rc != 0:
            raise Infra("build failed: %s\n%s" % (" ".join(j), err[-2000:]))
    exe = os.path.join(out, "lbzip2")
    rc, err = _cc([cc] + flags + [os.path.join(out, f[:-2] + ".o") for f in cfiles] + ["-o", exe])
    if rc != 0:
        raise Infra("link failed: " + err[-2000:])
    return exe


def build_shim():
    """LD_PRELOAD shim for short reads/writes and n-th call failures (harness/preload_io.c)."""
    out = subdir("harness")
    so = os.path.join(out, "preload_io.so")
    if not os.path.exists(so):
        rc, err = _cc(["gcc", "-O1", "-shared", "-fPIC", "-o", so, os.path.join(VERIF, "harness", "preload_io.c"),
                       "-ldl", "-pthread"])
        if rc != 0:
            raise Infra("shim build failed: " + err[-2000:])
    return so


def build_harness(name, cfile, srcdir, extra=()):
    """Compile a harness that #includes files from the copied source tree."""
    out = subdir("harness")
    exe = os.path.join(out, name)
    args = ["gcc", "-O1", "-g", "-pthread", "-D_XOPEN_SOURCE=700", "-D_FILE_OFFSET_BITS=64",
            '-DPACKAGE_NAME="lbzip2"', '-DPACKAGE_VERSION="devel"', "-I", srcdir,
            os.path.join(VERIF, "harness", cfile), "-o", exe] + list(extra)
    rc, err = _cc(args)
    if rc != 0:
        raise Infra("harness build failed: %s\n%s" % (cfile, err[-3000:]))
    return exe


# ---------------------------------------------------------------- running lbzip2
class Run:
    def __init__(self, rc, out, err, timed_out, wall):
        self.rc, self.out, self.err, self.timed_out, self.wall = rc, out, err, timed_out, wall

    @property
    def signal(self):
        return -self.rc if self.rc is not None and self.rc < 0 else 0


_sigreset = [None]
_sigreset_lock = threading.Lock()


def sigreset():
    """path of the launcher that gives the program under test a defined signal environment"""
    with _sigreset_lock:
        if _sigreset[0] is None:
            exe = os.path.join(subdir("harness"), "sigreset")
            rc, err = _cc(["gcc", "-O1", "-o", exe + ".tmp", os.path.join(VERIF, "harness", "sigreset.c")])
            if rc != 0:
                raise Infra("sigreset build failed: " + err[-1000:])
            os.rename(exe + ".tmp", exe)
            _sigreset[0] = exe
    return _sigreset[0]


def launch_prefix(ignore_pipe=False, fsize=None, block_handled=False):
    return [sigreset()] + (["-i"] if ignore_pipe else []) + (["-b"] if block_handled else []) + (["-f", str(fsize)] if fsize is not None else [])


def run(argv, stdin=b"", env=None, timeout=60, cwd=None, stdin_file=None, stdout_file=None, ignore_pipe=False, fsize=None,
        stderr_file=None, block_handled=False):
    argv = launch_prefix(ignore_pipe, fsize, block_handled) + list(argv)
    e = dict(os.environ)
    for k in list(e):
        if k.startswith("VERIF_") and k not in ("VERIF_SCRATCH",):
            del e[k]
    for k in ("LBZIP2", "BZIP2", "BZIP"):
        e.pop(k, None)
    if env:
        e.update({k: str(v) for k, v in env.items()})
    t0 = time.time()
    fin = open(stdin_file, "rb") if stdin_file else None
    fout = open(stdout_file, "wb") if stdout_file else None
    ferr = open(stderr_file, "wb") if stderr_file else None
    try:
        p = subprocess.Popen(argv, stdin=fin if fin else subprocess.PIPE,
                             stdout=fout if fout else subprocess.PIPE, stderr=ferr if ferr else subprocess.PIPE,
                             env=e, cwd=cwd, start_new_session=True)
        try:
            out, err = p.communicate(None if fin else stdin, timeout=timeout)
            to = False
        except subprocess.TimeoutExpired:
            try:
                os.killpg(p.pid, signal.SIGKILL)
            except ProcessLookupError:
                pass
            out, err = p.communicate()
            to = True
    finally:
        if fin:
            fin.close()
        if fout:
            fout.close()
        if ferr:
            ferr.close()
    return Run(p.returncode, out or b"", err or b"", to, time.time() - t0)


def digest(b):
    return hashlib.sha256(b).hexdigest()[:16]


# ---------------------------------------------------------------- TLC
class TlcResult:
    def __init__(self, rc, text, wall):
        self.rc, self.text, self.wall = rc, text, wall
        m = re.findall(r"(\d[\d,]*) states generated, (\d[\d,]*) distinct states found", text)
        if not m:      # killed before its final line: the last progress report
            m = re.findall(r"(\d[\d,]*) states generated \([^)]*\), (\d[\d,]*) distinct states found", text)
        self.generated = int(m[-1][0].replace(",", "")) if m else 0
        self.distinct = int(m[-1][1].replace(",", "")) if m else 0
        self.violated = re.findall(r"Invariant (\w+) is violated", text) + re.findall(r"The invariant of (\w+) is equal to FALSE", text)
        self.temporal = "Temporal properties were violated" in text
        self.deadlock = "Deadlock reached" in text
        self.completed = "Model checking completed. No error has been found." in text
        self.rejects = re.findall(r'<<"REJECT", (\d+), "(\w+)", "([^"]*)">>', text)
        self.errors = [l for l in text.splitlines() if l.startswith("Error:")]

    @property
    def ok(self):
        return self.completed and not self.violated and not self.temporal and not self.deadlock


def tlc(workdir, module, cfg=None, env=None, workers=None, timeout=900, simulate=None, depth=None, allow_timeout=False,
        xmx="8g", extra=(), coverage=False, dfs=False):
    md = tempfile.mkdtemp(prefix="md.", dir=workdir)
    jopts = ["-XX:+UseParallelGC", "-Xmx" + xmx, "-Xss64m"]
    if dfs:
        jopts.append("-Dtlc2.tool.queue.IStateQueue=StateDeque")
    args = ["java"] + jopts + ["-cp", TLA_CP, "tlc2.TLC", "-noGenerateSpecTE", "-metadir", md,
                               "-workers", str(workers or 1)]
    if cfg:
        args += ["-config", cfg]
    if simulate:
        args += ["-simulate", "num=%d" % simulate]
    if depth:
        args += ["-depth", str(depth)]
    if coverage:
        args += ["-coverage", "1"]
    args += list(extra) + [module]
    e = dict(os.environ)
    if env:
        e.update({k: str(v) for k, v in env.items()})
    t0 = time.time()
    try:
        r = subprocess.run(["timeout", "-k", "5", str(timeout)] + args, cwd=workdir, env=e,
                           capture_output=True, text=True, errors="replace")
    finally:
        shutil.rmtree(md, ignore_errors=True)
    wall = time.time() - t0
    # (timeout(1) reports 124, or 137 when TLC had to be killed after the grace period)
    timed_out = r.returncode in (124, 137) or (r.returncode != 0 and wall >= timeout - 2)
    if timed_out and not allow_timeout:
        raise Infra("TLC timed out after %ds on %s" % (timeout, module))
    res = TlcResult(r.returncode, r.stdout + r.stderr, wall)
    res.timed_out = timed_out
    return res


def spec_workdir(name, modules):
    """Copy the named spec modules into a fresh scratch directory."""
    d = subdir(name)
    for m in modules:
        shutil.copy(os.path.join(SPEC, m), d)
    return d


class TSet(list):
    """A list that is rendered as a TLA+ set."""


def tla_value(v):
    if isinstance(v, TSet):
        return "{" + ", ".join(tla_value(x) for x in v) + "}"
    if isinstance(v, bool):
        return "TRUE" if v else "FALSE"
    if isinstance(v, int):
        return str(v)
    if isinstance(v, str):
        return '"%s"' % v
    if isinstance(v, (list, tuple)):
        return "<<" + ", ".join(tla_value(x) for x in v) + ">>"
    if isinstance(v, (set, frozenset)):
        return "{" + ", ".join(tla_value(x) for x in sorted(v, key=repr)) + "}"
    if isinstance(v, dict):
        return "[" + ", ".join("%s |-> %s" % (k, tla_value(x)) for k, x in v.items()) + "]"
    raise TypeError(v)


def mc_instance(workdir, name, base, consts, invariants=(), properties=(), spec="Spec",
                constraint=None, view=None):
    """Write <name>.tla / <name>.cfg instantiating module `base` with the constants given
    (scalars go to the cfg, structured values through an override operator)."""
    defs, cfgc = [], []
    for k, v in consts.items():
        if isinstance(v, (bool, int)) and not isinstance(v, (list, dict)):
            cfgc.append(" %s = %s" % (k, tla_value(v)))
        else:
            defs.append("I_%s == %s" % (k, tla_value(v)))
            cfgc.append(" %s <- I_%s" % (k, k))
    with open(os.path.join(workdir, name + ".tla"), "w") as f:
        f.write("---- MODULE %s ----\nEXTENDS %s\n%s\n====\n" % (name, base, "\n".join(defs)))
    with open(os.path.join(workdir, name + ".cfg"), "w") as f:
        f.write("SPECIFICATION %s\nCONSTANTS\n%s\n" % (spec, "\n".join(cfgc)))
        if invariants:
            f.write("INVARIANTS %s\n" % " ".join(invariants))
        for p in properties:
            f.write("PROPERTY %s\n" % p)
        if constraint:
            f.write("CONSTRAINT %s\n" % constraint)
        if view:
            f.write("VIEW %s\n" % view)
        f.write("CHECK_DEADLOCK FALSE\n")
    return name + ".tla", name + ".cfg"


# ---------------------------------------------------------------- trace validation
class TraceVerdict:
    def __init__(self, accepted, events, matched, reason, tlc_result, layer):
        self.accepted, self.events, self.matched = accepted, events, matched
        self.reason, self.tlc, self.layer = reason, tlc_result, layer


def concat_traces(paths, out):
    n = 0
    with open(out, "w") as f:
        for p in paths:
            f.write('{"e":"Reset"}\n')
            n += 1
            with open(p) as g:
                for line in g:
                    if line.strip():
                        f.write(line if line.endswith("\n") else line + "\n")
                        n += 1
    return n


def validate_trace(spec_module, trace_file, strict=True, timeout=600, tag="tv", max_tid=64, leak=False):
    """Run TLC on a (concatenated) trace.  Accepted iff NotAccepted is violated."""
    base = {"TraceCompress": ["Compress.tla", "TraceCompress.tla"],
            "TraceExpand": ["Expand.tla", "TraceExpand.tla"],
            "TraceCopy": ["Copy.tla", "TraceCopy.tla"]}[spec_module]
    d = spec_workdir(tag, base)
    with open(os.path.join(d, "T.cfg"), "w") as f:
        f.write("SPECIFICATION Spec\nCONSTANTS Strict = %s\n MaxTid = %d\n%s"
                "INVARIANTS TraceInv NotAccepted\nCHECK_DEADLOCK FALSE\n"
                % ("TRUE" if strict else "FALSE", max_tid,
                   (" CheckLeak = %s\n" % ("TRUE" if leak else "FALSE")) if spec_module == "TraceExpand" else ""))
    n = sum(1 for _ in open(trace_file))
    r = tlc(d, spec_module + ".tla", "T.cfg", env={"TRACE": trace_file}, workers=1, timeout=timeout)
    accepted = "NotAccepted" in r.violated and r.violated == ["NotAccepted"]
    reason = None
    if not accepted:
        if r.violated and r.violated != ["NotAccepted"]:
            reason = "invariant %s violated after event %d" % (r.violated[0], r.distinct - 1)
        elif r.rejects:
            i, ev, why = r.rejects[-1]
            reason = "event %s (%s): %s" % (i, ev, why)
        elif r.completed or r.distinct:
            reason = "event %d not explained by any action" % (r.distinct)
        else:
            raise Infra("TLC failed on trace %s:\n%s" % (trace_file, r.text[-3000:]))
    return TraceVerdict(accepted, n, max(0, r.distinct - 1), reason, r, "policy" if strict else "property")


# ---------------------------------------------------------------- findings, evidence, reporting
def known_findings():
    p = os.path.join(VERIF, "known-findings.jsonl")
    out = []
    if os.path.exists(p):
        for line in open(p):
            line = line.strip()
            if line.startswith("{"):
                out.append(json.loads(line))
    return out


class Report:
    """Collects what a check did and turns it into evidence + exit status."""

    def __init__(self, pid, level, tier):
        self.pid, self.level, self.tier = pid, level, tier
        self.t0 = time.time()
        self.cov = {"samples": []}
        self.violations = []
        self.known_hits = []
        self.assumptions = []
        self.notes = []

    def add(self, key, n=1):
        self.cov[key] = self.cov.get(key, 0) + n

    def sample(self, s, cap=8):
        if len(self.cov["samples"]) < cap:
            self.cov["samples"].append(s)

    def violation(self, what, replay_obj):
        """Record a violation unless it matches a known finding."""
        for k in known_findings():
            if k.get("kind") == "known" and k.get("property") == self.pid and _match(k.get("match", {}), replay_obj):
                if k["what"] not in self.known_hits:
                    self.known_hits.append(k["what"])
                return False
        os.makedirs(os.path.join(VERIF, "replays"), exist_ok=True)
        path = os.path.join(VERIF, "replays", "%s-%s-%d.json" % (self.pid, self.tier, len(self.violations)))
        replay_obj = dict(replay_obj)
        replay_obj["what"] = what
        with open(path, "w") as f:
            json.dump(replay_obj, f, indent=1, default=str)
        self.violations.append((what, path))
        return True

    def finish(self, infra=None):
        wall = time.time() - self.t0
        ev = {"property_id": self.pid, "tier": self.tier, "seed": seed(), "level": self.level,
              "coverage": self.cov, "assumptions": self.assumptions, "wall_s": round(wall, 2),
              "violations": len(self.violations)}
        if self.notes:
            ev["coverage"]["notes"] = self.notes
        if infra:
            ev["coverage"]["infrastructure_failure"] = str(infra)[:2000]
        os.makedirs(os.path.join(VERIF, "evidence"), exist_ok=True)
        with open(os.path.join(VERIF, "evidence", self.pid + ".json"), "w") as f:
            json.dump(ev, f, indent=1, default=str)
        for k in self.known_hits:
            print("KNOWN-FINDING: property=%s %s" % (self.pid, k))
        for what, path in self.violations:
            print("VIOLATION property=%s replay=%s" % (self.pid, path))
            print("  " + what)
        if infra:
            print("INFRASTRUCTURE-FAILURE property=%s: %s" % (self.pid, str(infra)[:1500]))
            return 2
        return 1 if self.violations else 0


def _match(pat, obj):
    for k, v in pat.items():
        if k not in obj:
            return False
        if isinstance(v, dict) and isinstance(obj[k], dict):
            if not _match(v, obj[k]):
                return False
        elif isinstance(v, str) and isinstance(obj[k], str) and v.startswith("re:"):
            if not re.search(v[3:], obj[k]):
                return False
        elif obj[k] != v:
            return False
    return True


def main_wrapper(pid, level, fn):
    """Standard entry: parse --tier/--replay, run fn(report, tier, replay), write evidence."""
    import argparse
    ap = argparse.ArgumentParser()
    ap.add_argument("--tier", default=os.environ.get("VERIF_TIER", "quick"), choices=["quick", "thorough"])
    ap.add_argument("--replay", default=None)
    a = ap.parse_args(sys.argv[2:])
    rep = Report(pid, level, a.tier)
    random.seed(seed())
    try:
        fn(rep, a.tier, a.replay)
        rc = rep.finish()
    except Infra as e:
        rc = rep.finish(infra=e)
    except subprocess.CalledProcessError as e:
        rc = rep.finish(infra=e)
    except Exception as e:                     # a bug in the checker is not a verdict about lbzip2
        import traceback
        traceback.print_exc()
        rc = rep.finish(infra=Infra("checker error: %r" % (e,)))
    sys.exit(rc)
