#!/usr/bin/python3
"""Spec => code replay of the sequential state machines: TLC enumerates (or samples) the behaviours
of spec/Emit.tla, Rle.tla, Scan.tla ... and prints each complete behaviour as one JSON line; the same
stimuli are then stepped through the real functions by the C harnesses (which #include the working
tree's .c files) and compared call by call."""
import json, os, subprocess, sys
sys.path.insert(0, os.path.dirname(os.path.abspath(__file__)))
import vlib


def gen(module, consts, invariants, tag, workers=8, timeout=900, simulate=None, depth=None, seed=None, xmx="8g",
        defs=None, spec="Spec", properties=(), deadlock=False):
    """Run TLC on spec/<module>.tla with the given constants (defs: constant -> TLA+ expression,
    substituted through a wrapper module); returns (behaviours, TlcResult)."""
    d = vlib.spec_workdir("gen_" + tag, [module + ".tla"])
    lines = ["SPECIFICATION " + spec, "CONSTANTS"]
    for k, v in consts.items():
        lines.append(" %s = %s" % (k, vlib.tla_value(vlib.TSet(sorted(v))) if isinstance(v, (set, frozenset)) else vlib.tla_value(v)))
    top = module
    if defs:
        top = "G_" + module
        with open(os.path.join(d, top + ".tla"), "w") as f:
            f.write("---- MODULE %s ----\nEXTENDS %s\n" % (top, module))
            for k, e in defs.items():
                f.write("D_%s == %s\n" % (k, e))
                lines.append(" %s <- D_%s" % (k, k))
            f.write("====\n")
    lines.append("INVARIANTS " + " ".join(invariants))
    if properties:
        lines.append("PROPERTIES " + " ".join(properties))
    lines.append("CHECK_DEADLOCK %s" % ("TRUE" if deadlock else "FALSE"))
    with open(os.path.join(d, "G.cfg"), "w") as f:
        f.write("\n".join(lines) + "\n")
    extra = []
    if seed is not None:
        extra += ["-seed", str(seed)]
    r = vlib.tlc(d, top + ".tla", "G.cfg", workers=workers, timeout=timeout, simulate=simulate, depth=depth,
                 extra=extra, xmx=xmx)
    if r.violated or r.temporal or (not r.completed and not simulate):
        return None, r
    beh = []
    for l in r.text.splitlines():
        if l.startswith('<<"BEHAVIOUR"'):
            j = l[l.index('"{'):l.rindex('}"') + 2]
            beh.append(json.loads(json.loads(j)))
    return beh, r


def run_harness(exe, text, timeout=600):
    p = subprocess.run([exe], input=text, capture_output=True, text=True, timeout=timeout)
    fails = [l for l in p.stdout.splitlines() if l.startswith("FAIL")]
    summary = [l for l in p.stdout.splitlines() if l.startswith("SUMMARY")]
    if p.returncode not in (0, 1) or not summary:
        raise vlib.Infra("harness %s crashed (rc=%s): %s %s" % (exe, p.returncode, p.stdout[-500:], p.stderr[-500:]))
    return fails, summary[0], p.returncode


def emit_text(behs):
    out = []
    for o in behs:
        st = 1 if o["status"] == "err" else 0
        out.append("%d %s %d %s %d %d %s" % (len(o["blk"]), " ".join(map(str, o["blk"])), len(o["calls"]),
                                            " ".join(map(str, o["calls"])), st, len(o["out"]), " ".join(map(str, o["out"]))))
    return "\n".join(out) + "\n"


def emit_leg(rep, srcdir, tier, pid="C09"):
    """Emit.tla behaviours replayed through emit().  Returns list of failure strings."""
    exe = vlib.build_harness("replay_emit", "replay_emit.c", srcdir, extra=[os.path.join(srcdir, "crctab.c")])
    runs = [dict(Alphabet={0, 1, 2}, Counts=set(), MaxLen=5, MaxPieces=0, MaxCalls=2),       # every short string
            dict(Alphabet={7, 8}, Counts={0, 3}, MaxLen=0, MaxPieces=4, MaxCalls=1),          # runs, one cut anywhere
            dict(Alphabet={7}, Counts={255}, MaxLen=0, MaxPieces=3, MaxCalls=1)]              # long runs
    if tier == "thorough":
        runs += [dict(Alphabet={0, 1, 2, 3}, Counts=set(), MaxLen=6, MaxPieces=0, MaxCalls=2),
                 dict(Alphabet={7, 8}, Counts={0, 1}, MaxLen=0, MaxPieces=3, MaxCalls=2),
                 dict(Alphabet={7}, Counts={1, 255}, MaxLen=0, MaxPieces=2, MaxCalls=2)]
    fails = []
    for i, consts in enumerate(runs):
        behs, r = gen("Emit", consts, ["Correct", "Export"], "emit%d" % i)
        if behs is None:
            raise vlib.Infra("Emit.tla does not satisfy its own Correct invariant for %s:\n%s" % (consts, r.text[-1500:]))
        rep.add("states", r.distinct)
        rep.add("transitions", r.generated)
        f, summary, rc = run_harness(exe, emit_text(behs))
        rep.add("emit_behaviours_replayed", len(behs))
        rep.add("traces_validated_against_impl", len(behs))
        if behs:
            rep.sample({"emit_behaviour": behs[len(behs) // 2]})
        for line in f[:5]:
            k = int(line.split()[1].rstrip(":"))
            fails.append((line, behs[k - 1]))
    return fails


def rle_text(behs):
    out = []
    for o in behs:
        parts = [str(len(o["inp"]))] + [str(x) for x in o["inp"]] + [str(o["cap"]), str(len(o["calls"]))]
        for c in o["calls"]:
            parts += [str(c["given"]), str(c["used"]), "1" if c["full"] else "0", str(c["st"]), str(c["nblock"])]
        parts += [str(len(o["q"]))] + [str(x) for x in o["q"]]
        out.append(" ".join(parts))
    return "\n".join(out) + "\n"


def rle_leg(rep, srcdir, tier, collect_into=None, mini=False):
    """Rle.tla (machine = greedy rule, checked by TLC) replayed through collect()."""
    exe = vlib.build_harness("replay_rle", "replay_rle.c", srcdir, extra=[os.path.join(srcdir, "crctab.c")])
    run = lambda x, n: "[j \\in 1..%d |-> %d]" % (n, x)
    longruns = "{%s}" % ", ".join(
        ["%s \\o %s" % (run(7, n), t) for n in ((259, 260, 518) if tier == "quick" else (258, 259, 260, 261, 518, 519))
         for t in (("<<>>", "<<8>>") if tier == "quick" else ("<<>>", "<<8>>", "<<8, 8>>"))] +
        ["<<8>> \\o %s \\o <<7>>" % run(7, 262)])
    cfgs = [dict(defs=dict(Inputs="UNION {[1..n -> {0, 1}] : n \\in 0..8}", Caps="1..7"), MaxCalls=3),
            dict(defs=dict(Inputs="UNION {[1..n -> {0, 1, 2}] : n \\in 0..5}", Caps="1..5"), MaxCalls=3),
            dict(defs=dict(Inputs=longruns, Caps="{5, 6, 10}" if tier == "quick" else "{4, 5, 6, 9, 10, 11}"), MaxCalls=2)]
    if tier == "thorough":
        cfgs += [dict(defs=dict(Inputs="UNION {[1..n -> {0, 1}] : n \\in 9..10}", Caps="1..8"), MaxCalls=3),
                 dict(defs=dict(Inputs="UNION {[1..n -> {0, 1}] : n \\in 0..7}", Caps="1..6"), MaxCalls=4)]
    if mini:                                   # the reduced leg other checks (C01) include
        cfgs = [dict(defs=dict(Inputs="UNION {[1..n -> {0, 1}] : n \\in 0..7}", Caps="1..6"), MaxCalls=3)]
    fails = []
    for i, c in enumerate(cfgs):
        behs, r = gen("Rle", dict(MaxCalls=c["MaxCalls"]), ["Greedy", "Export"], "rle%d" % i, defs=c["defs"], timeout=1500)
        if behs is None:
            raise vlib.Infra("Rle.tla: machine differs from the greedy rule for %s:\n%s" % (c, r.text[-1500:]))
        rep.add("states", r.distinct)
        rep.add("transitions", r.generated)
        f, summary, rc = run_harness(exe, rle_text(behs))
        if collect_into is not None:
            collect_into.extend({"inp": b["inp"], "cap": b["cap"], "used": b["used"]} for b in behs)
        rep.add("rle_behaviours_replayed", len(behs))
        rep.add("traces_validated_against_impl", len(behs))
        if behs:
            b = behs[len(behs) // 3]
            rep.sample({"rle_behaviour": {k: (v if k != "inp" or len(v) < 40 else v[:20] + ["..."]) for k, v in b.items() if k != "q"}})
        for line in f[:5]:
            k = int(line.split()[1].rstrip(":"))
            fails.append((line, behs[k - 1]))
    return fails


def scan_leg(rep, srcdir, tier):
    """Scan.tla: (1) every entry of the working tree's automaton tables against the KMP
    definition; (2) stimuli replayed through the real scan(), results judged by the contract."""
    out = vlib.subdir("harness")
    dump = os.path.join(out, "dump_scantab")
    rc, err = vlib._cc(["gcc", "-O0", "-I", srcdir, os.path.join(vlib.VERIF, "harness", "dump_scantab.c"), "-o", dump])
    if rc != 0:
        raise vlib.Infra("dump_scantab build failed: " + err[-1500:])
    tab = os.path.join(out, "scantab.json")
    with open(tab, "w") as f:
        f.write(subprocess.run([dump], capture_output=True, text=True, check=True).stdout)
    exe = vlib.build_harness("replay_scan", "replay_scan.c", srcdir)
    os.environ["SCANTAB"] = tab
    full = set(range(0, 6 * 32 - 47))
    cfgs = [dict(NWords={3, 6}, Fillers={1, 2}, Offsets=full, MaxPlants=1, Starts={0, 5, 32, 63}, Skips={0, 33, 100}, Misses={24, 47}),
            dict(NWords={6}, Fillers={0}, Offsets={0, 3, 40, 81, 90, 112}, MaxPlants=2, Starts={0, 1, 31}, Skips={0, 64}, Misses=set())]
    if tier == "thorough":
        cfgs = [dict(NWords={3, 4, 6}, Fillers={0, 1, 2}, Offsets=full, MaxPlants=1, Starts=set(range(0, 64, 13)) | {63}, Skips={0, 1, 32, 33, 64, 100},
                     Misses={1, 24, 47}),
                dict(NWords={6}, Fillers={1}, Offsets=set(range(0, 146, 5)), MaxPlants=1, Starts=set(range(0, 64, 3)), Skips={0, 31, 130},
                     Misses={8, 40, 46}),
                dict(NWords={6}, Fillers={0, 2}, Offsets=set(range(0, 113, 7)) | {80, 81}, MaxPlants=2, Starts={0, 1, 31, 33}, Skips={0, 33, 64}, Misses=set())]
    fails = []
    for i, c in enumerate(cfgs):
        behs, r = gen("Scan", c, ["TablesOK", "Export"], "scan%d" % i, timeout=3000, workers=12)
        if behs is None:
            if "TablesOK" in r.violated:
                rep.add("states", max(1, r.distinct or 0))
                rep.add("transitions", max(1, r.generated or 0))
                rep.add("scan_table_entries_checked", 96 + 49 * 256)
                return [("scanner table entry differs from the KMP automaton of the header pattern (Scan.tla TablesOK)", {"tables": "src/scantab.h"})]
            raise vlib.Infra("Scan.tla failed: %s" % r.text[-1500:])
        rep.add("states", r.distinct)
        rep.add("transitions", r.generated)
        rep.add("scan_table_entries_checked", 96 + 49 * 256)
        lines = []
        for b in behs:
            ws = " ".join("%04x%04x" % (hi, lo) for hi, lo in b["words"])
            lines.append("%d %s %d %d %d" % (len(b["words"]), ws, b["start"], b["pre"], b["skip"]))
        p = subprocess.run([exe], input="\n".join(lines) + "\n", capture_output=True, text=True, timeout=900)
        res = [l.split()[2:] for l in p.stdout.splitlines() if l.startswith("R ")]
        if p.returncode != 0 or len(res) != len(behs):
            raise vlib.Infra("replay_scan failed: rc=%s %s" % (p.returncode, p.stderr[-500:]))
        rep.add("scan_stimuli_replayed", len(behs))
        rep.add("traces_validated_against_impl", len(behs))
        for b, got in zip(behs, res):
            why = None
            if "LOOP" in got:
                why = "scan() does not make progress"
            else:
                got = [int(x) for x in got]
                occ_ends = {o + 80 for o in b["all"] if o >= b["start"]}
                if b["skip"] == 0:
                    if got != b["chain"]:
                        why = "reported %s, occurrences by definition %s" % (got, b["chain"])
                else:
                    must = [o for o in b["all"] if o >= b["start"] + b["skip"] + 31]
                    if got and got[0] not in occ_ends:
                        why = "reported a candidate at %d where the pattern does not occur" % got[0]
                    elif must and (not got or got[0] > min(must) + 80):
                        why = "missed the occurrence at bit %d (skip %d)" % (min(must), b["skip"])
                    elif got:
                        # after the first report the enumeration must be complete
                        rest, pos, occs = [], got[0], sorted(b["all"])
                        while True:
                            nxt = [o for o in occs if o >= pos]
                            if not nxt:
                                break
                            pos = nxt[0] + 80
                            rest.append(pos)
                        if got[1:] != rest:
                            why = "after the first candidate reported %s, expected %s" % (got[1:], rest)
            if why and len(fails) < 5:
                fails.append(("scan() deviates from Scan.tla: " + why, b))
        if behs:
            rep.sample({"scan_stimulus": {k: behs[len(behs) // 2][k] for k in ("start", "pre", "skip", "chain")}})
    return fails


# ------------------------------------------------------------------ Parser.tla
def _tla_shape(level0, streams, tail):
    ss = ", ".join("[level |-> %d, blocks |-> <<%s>>]" % (lv, ", ".join("[crc |-> <<%d, %d>>, pay |-> %d]" % (c[0], c[1], pay) for c, pay in blocks))
                   for lv, blocks in streams)
    return "[level0 |-> %d, streams |-> <<%s>>, tail |-> <<%s>>]" % (level0, ss, ", ".join(str(b) for b in tail))


def parser_shapes(tier):
    bits16 = lambda v: [(v >> (15 - i)) & 1 for i in range(16)]
    crcs = [(4660, 22136), (65535, 65535), (0, 1), (32768, 0), (43690, 21845)]
    shapes = []
    pays = range(0, 32) if tier == "thorough" else (0, 1, 5, 8, 13, 15, 16, 17, 24, 31)
    for i, pay in enumerate(pays):                      # the trailer at every bit offset mod 32
        shapes.append(_tla_shape(9, [(9, [(crcs[i % 5], pay)])], []))
    tails = [[], [0] * 8, bits16(0x1234), bits16(0x425A) + bits16(0x6830), bits16(0x425A) + bits16(0x683A), [1, 0, 1, 1, 0], bits16(0x425A)]
    for i, t in enumerate(tails):
        shapes.append(_tla_shape(5, [(5, [(crcs[0], 5), (crcs[1], 11)]), (3, [(crcs[2], 7 + i)])], t))
    shapes.append(_tla_shape(1, [(1, []), (2, [(crcs[3], 3)])], []))                        # an empty stream first
    shapes.append(_tla_shape(9, [(9, [(crcs[4], 2)]), (1, []), (7, [(crcs[0], 30), (crcs[2], 1)])], []))
    return shapes


def parse_leg(rep, srcdir, tier):
    """Parser.tla: Machine = Grammar for every stimulus (TLC), every stimulus replayed through the real
    parse() under several chunkings; returns [(why, stimulus)]."""
    exe = vlib.build_harness("replay_parse", "replay_parse.c", srcdir)
    shapes = parser_shapes(tier)
    fails = []
    # TLC holds every stimulus of a run in its initial-state set: a few shapes per run
    per = 3
    groups = [shapes[i:i + per] for i in range(0, len(shapes), per)]

    def go(ig):
        i, g = ig
        return gen("Parser", {}, ["MachineIsGrammar", "ValidAccepted", "Export"], "parser%d" % i, timeout=1800, workers=2,
                   defs=dict(Shapes="{%s}" % ", ".join(g)), xmx="4g")
    from concurrent.futures import ThreadPoolExecutor
    with ThreadPoolExecutor(max_workers=6) as ex:
        results = list(ex.map(go, list(enumerate(groups))))
    behs = []
    for b, r in results:
        if b is None:
            raise vlib.Infra("Parser.tla: machine and grammar disagree or TLC failed:\n%s" % r.text[-2000:])
        rep.add("states", r.distinct)
        rep.add("transitions", r.generated)
        behs += b
    lines, meta = [], []
    for b in behs:
        n16 = len(b["words"])
        nw = n16 // 2
        plans = {(): "whole", tuple(range(1, nw)): "every word", tuple(range(2, nw, 2)): "every 2nd word", tuple(range(1, nw, 2)): "odd words"}
        for e in b["ends"]:                                 # a chunk that ends exactly where a stream ends (and next to it)
            for k in (e // 32, (e + 31) // 32, e // 32 + 1):
                if 0 < k < nw:
                    plans[(k,)] = "chunk ends at word %d (stream end at bit %d)" % (k, e)
        for plan, pname in plans.items():
            lines.append("%d %s %d %d %s %d %s" % (n16, " ".join("%x" % w for w in b["words"]), b["level0"], len(b["skips"]),
                                                   " ".join(map(str, b["skips"])), len(plan), " ".join(map(str, plan))))
            meta.append((b, pname))
    p = subprocess.run([exe], input="\n".join(lines) + "\n", capture_output=True, text=True, timeout=1800)
    out = [l.split()[2:] for l in p.stdout.splitlines() if l.startswith("R ")]
    if p.returncode != 0 or len(out) != len(lines):
        # a crash of parse() itself (assert) on some stimulus: find it
        if p.returncode < 0 and len(out) < len(lines):
            b, pname = meta[len(out)]
            return [("parse() crashed (signal %d) on a %s stimulus, %s" % (-p.returncode, b["mut"], pname), dict(stimulus=b, chunks=pname))]
        raise vlib.Infra("replay_parse failed: rc=%s %s" % (p.returncode, p.stderr[-500:]))
    rep.add("parser_stimuli", len(behs))
    rep.add("parser_replays", len(lines))
    rep.add("traces_validated_against_impl", len(lines))
    for (b, pname), got in zip(meta, out):
        want = []
        for r in b["res"]:
            if r["r"] == "OK":
                want.append("OK:%d:%d:%d" % (r["crc"][0], r["crc"][1], r["level"]))
            elif r["r"] == "FINISH":
                want.append("FINISH:%d" % r["garbage"])
            elif r["r"] == "PAYLOAD_EOF":
                want.append("PAYLOAD_EOF")
            else:
                want.append("ERR:" + r["r"])
        if got != want:
            fails.append(("parse() deviates from Parser.tla (%s of a shape, %s): returned %s, specification %s" %
                          (b["mut"] if b["mut"] == "none" else "%s at bit %d" % (b["mut"], b["at"]), pname, " ".join(got), " ".join(want)),
                          dict(stimulus={k: b[k] for k in ("words", "level0", "skips", "mut", "at")}, chunks=pname, got=got, want=want)))
            if len(fails) >= 6:
                break
    return fails


# ------------------------------------------------------------------ Queues.tla
def queues_leg(rep, srcdir, tier):
    """Queues.tla: ring-buffer deque and binary-heap priority queue, transcription vs abstract meaning for every operation
    sequence (TLC), every explored sequence replayed through the real macros / functions; returns [(why, stimulus)]."""
    import re
    out = vlib.subdir("harness")
    text = open(os.path.join(srcdir, "process.c")).read()
    m = re.search(r"#define parent\(i\).*?\ndown_heap\(.*?\n}\n", text, re.S)
    if not m:
        raise vlib.Infra("cannot find up_heap()/down_heap() in process.c")
    with open(os.path.join(out, "heap_extract.h"), "w") as f:
        f.write(m.group(0))
    exe = vlib.build_harness("replay_queues", "replay_queues.c", srcdir, extra=["-I", out])
    cfgs = [("deque", {1, 2, 3}, 6, {1, 2}), ("pqueue", {1, 3, 4}, 7, {1, 2, 3})]
    if tier == "thorough":
        cfgs = [("deque", {1, 2, 3, 4}, 6, {1, 2}), ("deque", {2}, 8, {1}), ("pqueue", {1, 2, 3, 5}, 7, {1, 2, 3}), ("pqueue", {6}, 9, {1, 2})]
    fails = []
    code = {"push": 1, "pop": 2, "shift": 3, "unshift": 4, "get": 5, "enqueue": 1, "dequeue": 2, "peek": 3}
    for kind, caps, maxops, vals in cfgs:
        behs, r = gen("Queues", dict(Kind=kind, Caps=caps, MaxOps=maxops, Vals=vals), ["Represents", "ReturnsRight", "Export"], "queues_%s%d" % (kind, maxops),
                      timeout=1800, workers=8)
        if behs is None:
            raise vlib.Infra("Queues.tla (%s): the transcription does not represent its abstract meaning:\n%s" % (kind, r.text[-1500:]))
        rep.add("states", r.distinct)
        rep.add("transitions", r.generated)
        lines = ["%s %d %d %s" % ("D" if kind == "deque" else "P", b["cap"], len(b["ops"]), " ".join("%d %d" % (code[o["op"]], o["arg"]) for o in b["ops"]))
                 for b in behs]
        p = subprocess.run([exe], input="\n".join(lines) + "\n", capture_output=True, text=True, timeout=900)
        res = [l.split()[2:] for l in p.stdout.splitlines() if l.startswith("R ")]
        if p.returncode != 0 or len(res) != len(behs):
            if p.returncode < 0 and len(res) < len(behs):
                b = behs[len(res)]
                return [("%s operations crash (signal %d): capacity %d, %s" % (kind, -p.returncode, b["cap"], [(o["op"], o["arg"]) for o in b["ops"]]),
                         dict(kind=kind, cap=b["cap"], ops=b["ops"]))]
            raise vlib.Infra("replay_queues failed: rc=%s %s" % (p.returncode, p.stderr[-300:]))
        rep.add("queue_sequences_replayed", len(behs))
        rep.add("traces_validated_against_impl", len(behs))
        for b, got in zip(behs, res):
            want = [str(o["ret"]) for o in b["ops"]]
            if got != want:
                k = next(i for i in range(len(want)) if i >= len(got) or got[i] != want[i])
                fails.append(("%s of capacity %d: operation %d (%s) returned %s, Queues.tla says %s after %s" %
                              (kind, b["cap"], k + 1, b["ops"][k]["op"], got[k] if k < len(got) else "?", want[k], [(o["op"], o["arg"]) for o in b["ops"][:k]]),
                              dict(kind=kind, cap=b["cap"], ops=b["ops"], got=got)))
                if len(fails) >= 4:
                    return fails
    return fails


def imtf_leg(rep, srcdir, tier):
    """spec/Imtf.tla (mtf_one(): sliding-lists inverse move-to-front).
    (M) small constants: every call sequence, invariants Represents / InPool / NoOverlap / RebuildDst / Permutation.
    (G) the code's own constants: the spec follows seeded call sequences long enough to force rebuilds, the same
    invariants are checked in every state, and each behaviour (returned value and offset of row 0 per call) is
    replayed through the real mtf_one().  Returns [(why, stimulus)]."""
    import random
    from concurrent.futures import ThreadPoolExecutor
    exe = vlib.build_harness("replay_imtf", "replay_imtf.c", srcdir, extra=[os.path.join(srcdir, "crctab.c")])
    rw, nr, sl, base = map(int, subprocess.run([exe, "consts"], capture_output=True, text=True).stdout.split())
    if rw * nr != 256 or base != sl - 256 or base <= 0:
        return [("decode.c: ROW_WIDTH * NUM_ROWS = %d, CMAP_BASE = %d, SLIDE_LENGTH = %d do not describe a 256-entry list inside the pool"
                 % (rw * nr, base, sl), dict(consts=[rw, nr, sl, base]))]
    invs = "Represents InPool NoOverlap RebuildDst Permutation"

    def small(cfg):
        tag, c = cfg
        d = vlib.spec_workdir("imtf_" + tag, ["Imtf.tla"])
        with open(os.path.join(d, "MCI.tla"), "w") as f:
            f.write("---- MODULE MCI ----\nEXTENDS Imtf\nView == <<off, cell, list, ok>>\nD_Indices == 1..(N-1)\nD_Stim == <<>>\n====\n")
        with open(os.path.join(d, "MCI.cfg"), "w") as f:
            f.write("SPECIFICATION Spec\nCONSTANTS\n RW = %d\n NR = %d\n SL = %d\n MaxOps = 1000000\n Indices <- D_Indices\n Stim <- D_Stim\n"
                    "VIEW View\nINVARIANTS %s\nCHECK_DEADLOCK FALSE\n" % (c[0], c[1], c[2], invs))
        return tag, vlib.tlc(d, "MCI.tla", "MCI.cfg", workers=2, timeout=1500)

    def follow(job):
        tag, stim = job
        d = vlib.spec_workdir("imtf_" + tag, ["Imtf.tla"])
        with open(os.path.join(d, "GI.tla"), "w") as f:
            f.write("---- MODULE GI ----\nEXTENDS Imtf\nD_Stim == <<%s>>\nD_Indices == {}\n====\n" % ",".join(map(str, stim)))
        with open(os.path.join(d, "GI.cfg"), "w") as f:
            f.write("SPECIFICATION Spec\nCONSTANTS\n RW = %d\n NR = %d\n SL = %d\n MaxOps = %d\n Indices <- D_Indices\n Stim <- D_Stim\n"
                    "INVARIANTS %s Export\nCHECK_DEADLOCK FALSE\n" % (rw, nr, sl, len(stim), invs))
        return tag, stim, vlib.tlc(d, "GI.tla", "GI.cfg", workers=1, timeout=1500)

    smalls = [("s232", (2, 3, 9)), ("s322", (3, 2, 8))]
    if tier == "thorough":
        smalls += [("s233", (2, 3, 7)), ("s242", (2, 4, 10))]
    rng = random.Random(vlib.seed() + 77)
    edge = [1, 2, rw - 1, rw, rw + 1, 2 * rw - 1, 2 * rw, 255 - rw, 255 - rw + 1, 254, 255]
    n = sl - 256 + 600                                     # one rebuild for sure when most calls take the general path
    stims = [("g_mixed", [rng.choice(edge) if rng.random() < 0.15 else rng.randrange(rw, 256) for _ in range(n)]),
             ("g_row1", [rng.choice((rw, rw + 1, 2 * rw - 1)) if rng.random() < 0.9 else rng.randrange(1, 256) for _ in range(n)]),
             ("g_fast", [rng.randrange(1, rw) if rng.random() < 0.5 else rng.randrange(rw, 256) for _ in range(n + n // 4)])]
    if tier == "thorough":
        stims += [("g_last", [255 if rng.random() < 0.8 else rng.randrange(1, 256) for _ in range(2 * n)]),
                  ("g_uniform", [rng.randrange(1, 256) for _ in range(2 * n)])]
    fails = []
    with ThreadPoolExecutor(max_workers=8) as ex:
        fs = list(ex.map(small, smalls))
        fg = list(ex.map(follow, stims))
    for tag, r in fs:
        if r.violated or not r.completed:
            raise vlib.Infra("Imtf.tla (%s) does not satisfy its own invariants:\n%s" % (tag, r.text[-1500:]))
        rep.add("states", r.distinct)
        rep.add("transitions", r.generated)
    text, behs = [], []
    for tag, stim, r in fg:
        if r.violated or not r.completed:
            raise vlib.Infra("Imtf.tla with the code's constants (%s) violates its invariants:\n%s" % (tag, r.text[-1500:]))
        rep.add("states", r.distinct)
        rep.add("transitions", r.generated)
        b = None
        for l in r.text.splitlines():
            if l.startswith('<<"BEHAVIOUR"'):
                b = json.loads(json.loads(l[l.index('"{'):l.rindex('}"') + 2]))
        if b is None or len(b["ops"]) != len(stim):
            raise vlib.Infra("Imtf.tla produced no behaviour for " + tag)
        ops = b["ops"]
        rep.add("imtf_rebuilds_in_spec", sum(1 for o in ops if o["rebuilt"]))
        text.append("%d " % len(ops) + " ".join("%d %d %d" % (o["c"], o["ret"], o["off0"]) for o in ops))
        behs.append((tag, ops))
    p = subprocess.run([exe], input="\n".join(text) + "\n", capture_output=True, text=True, timeout=600)
    summary = [l for l in p.stdout.splitlines() if l.startswith("SUMMARY")]
    if p.returncode < 0:
        fails.append(("mtf_one() died with signal %d while replaying Imtf.tla behaviours (%s)" % (-p.returncode, p.stderr[-200:].strip()),
                      dict(stimuli=[t for t, _ in behs], seed=vlib.seed())))
    elif not summary:
        raise vlib.Infra("replay_imtf: no summary: %s %s" % (p.stdout[-300:], p.stderr[-300:]))
    for line in [l for l in p.stdout.splitlines() if l.startswith("FAIL")][:5]:
        k = int(line.split()[1])
        tag, ops = behs[k - 1]
        fails.append((line, dict(stimulus=tag, seed=vlib.seed(), calls=[o["c"] for o in ops][:64])))
    rep.add("imtf_behaviours_replayed", len(behs))
    rep.add("imtf_calls_replayed", sum(len(o) for _, o in behs))
    rep.add("traces_validated_against_impl", len(behs))
    rep.sample({"imtf_behaviour": {"stimulus": behs[0][0], "first_calls": behs[0][1][:3], "summary": summary[0] if summary else ""}})
    return fails
