#!/usr/bin/python3
"""Spec => code replay of the sequential state machines: TLC enumerates (or samples) the behaviours
of spec/Emit.tla, Rle.tla, Scan.tla ... and prints each complete behaviour as one JSON line; the same
stimuli are then stepped through the real functions by the C harnesses (which #include the working
tree's .c files) and compared call by call."""
import json, os, subprocess, sys
sys.path.insert(0, os.path.dirname(os.path.abspath(__file__)))
import vlib


def gen(module, consts, invariants, tag, workers=8, timeout=900, simulate=None, depth=None, seed=None, xmx="8g"):
    """Run TLC on spec/<module>.tla with the given constants; returns (behaviours, TlcResult)."""
    d = vlib.spec_workdir("gen_" + tag, [module + ".tla"])
    lines = ["SPECIFICATION Spec", "CONSTANTS"]
    for k, v in consts.items():
        lines.append(" %s = %s" % (k, vlib.tla_value(vlib.TSet(v)) if isinstance(v, (set, frozenset)) else vlib.tla_value(v)))
    lines.append("INVARIANTS " + " ".join(invariants))
    lines.append("CHECK_DEADLOCK FALSE")
    with open(os.path.join(d, "G.cfg"), "w") as f:
        f.write("\n".join(lines) + "\n")
    extra = []
    if seed is not None:
        extra += ["-seed", str(seed)]
    r = vlib.tlc(d, module + ".tla", "G.cfg", workers=workers, timeout=timeout, simulate=simulate, depth=depth,
                 extra=extra, xmx=xmx)
    if r.violated or r.temporal or (not r.completed and not simulate):
        return None, r
    beh = []
    for l in r.text.splitlines():
        if l.startswith('<<"BEHAVIOUR"'):
            j = l[l.index('"{'):l.rindex('}"') + 2]
            beh.append(json.loads(json.loads(j)))
    return beh, r


def run_harness(exe, text, timeout=600):
    p = subprocess.run([exe], input=text, capture_output=True, text=True, timeout=timeout)
    fails = [l for l in p.stdout.splitlines() if l.startswith("FAIL")]
    summary = [l for l in p.stdout.splitlines() if l.startswith("SUMMARY")]
    if p.returncode not in (0, 1) or not summary:
        raise vlib.Infra("harness %s crashed (rc=%s): %s %s" % (exe, p.returncode, p.stdout[-500:], p.stderr[-500:]))
    return fails, summary[0], p.returncode


def emit_text(behs):
    out = []
    for o in behs:
        st = 1 if o["status"] == "err" else 0
        out.append("%d %s %d %s %d %d %s" % (len(o["blk"]), " ".join(map(str, o["blk"])), len(o["calls"]),
                                            " ".join(map(str, o["calls"])), st, len(o["out"]), " ".join(map(str, o["out"]))))
    return "\n".join(out) + "\n"


def emit_leg(rep, srcdir, tier, pid="C09"):
    """Emit.tla behaviours replayed through emit().  Returns list of failure strings."""
    exe = vlib.build_harness("replay_emit", "replay_emit.c", srcdir, extra=[os.path.join(srcdir, "crctab.c")])
    runs = [dict(Alphabet={0, 1, 2}, Counts=set(), MaxLen=5, MaxPieces=0, MaxCalls=2),       # every short string
            dict(Alphabet={7, 8}, Counts={0, 3}, MaxLen=0, MaxPieces=4, MaxCalls=1),          # runs, one cut anywhere
            dict(Alphabet={7}, Counts={255}, MaxLen=0, MaxPieces=3, MaxCalls=1)]              # long runs
    if tier == "thorough":
        runs += [dict(Alphabet={0, 1, 2, 3}, Counts=set(), MaxLen=6, MaxPieces=0, MaxCalls=2),
                 dict(Alphabet={7, 8}, Counts={0, 1}, MaxLen=0, MaxPieces=3, MaxCalls=2),
                 dict(Alphabet={7}, Counts={1, 255}, MaxLen=0, MaxPieces=2, MaxCalls=2)]
    fails = []
    for i, consts in enumerate(runs):
        behs, r = gen("Emit", consts, ["Correct", "Export"], "emit%d" % i)
        if behs is None:
            raise vlib.Infra("Emit.tla does not satisfy its own Correct invariant for %s:\n%s" % (consts, r.text[-1500:]))
        rep.add("states", r.distinct)
        rep.add("transitions", r.generated)
        f, summary, rc = run_harness(exe, emit_text(behs))
        rep.add("emit_behaviours_replayed", len(behs))
        rep.add("traces_validated_against_impl", len(behs))
        if behs:
            rep.sample({"emit_behaviour": behs[len(behs) // 2]})
        for line in f[:5]:
            k = int(line.split()[1].rstrip(":"))
            fails.append((line, behs[k - 1]))
    return fails
