#!/usr/bin/python3
"""Spec => code replay of the sequential state machines: TLC enumerates (or samples) the behaviours
of spec/Emit.tla, Rle.tla, Scan.tla ... and prints each complete behaviour as one JSON line; the same
stimuli are then stepped through the real functions by the C harnesses (which #include the working
tree's .c files) and compared call by call."""
import json, os, subprocess, sys
sys.path.insert(0, os.path.dirname(os.path.abspath(__file__)))
import vlib


def gen(module, consts, invariants, tag, workers=8, timeout=900, simulate=None, depth=None, seed=None, xmx="8g",
        defs=None):
    """Run TLC on spec/<module>.tla with the given constants (defs: constant -> TLA+ expression,
    substituted through a wrapper module); returns (behaviours, TlcResult)."""
    d = vlib.spec_workdir("gen_" + tag, [module + ".tla"])
    lines = ["SPECIFICATION Spec", "CONSTANTS"]
    for k, v in consts.items():
        lines.append(" %s = %s" % (k, vlib.tla_value(vlib.TSet(sorted(v))) if isinstance(v, (set, frozenset)) else vlib.tla_value(v)))
    top = module
    if defs:
        top = "G_" + module
        with open(os.path.join(d, top + ".tla"), "w") as f:
            f.write("---- MODULE %s ----\nEXTENDS %s\n" % (top, module))
            for k, e in defs.items():
                f.write("D_%s == %s\n" % (k, e))
                lines.append(" %s <- D_%s" % (k, k))
            f.write("====\n")
    lines.append("INVARIANTS " + " ".join(invariants))
    lines.append("CHECK_DEADLOCK FALSE")
    with open(os.path.join(d, "G.cfg"), "w") as f:
        f.write("\n".join(lines) + "\n")
    extra = []
    if seed is not None:
        extra += ["-seed", str(seed)]
    r = vlib.tlc(d, top + ".tla", "G.cfg", workers=workers, timeout=timeout, simulate=simulate, depth=depth,
                 extra=extra, xmx=xmx)
    if r.violated or r.temporal or (not r.completed and not simulate):
        return None, r
    beh = []
    for l in r.text.splitlines():
        if l.startswith('<<"BEHAVIOUR"'):
            j = l[l.index('"{'):l.rindex('}"') + 2]
            beh.append(json.loads(json.loads(j)))
    return beh, r


def run_harness(exe, text, timeout=600):
    p = subprocess.run([exe], input=text, capture_output=True, text=True, timeout=timeout)
    fails = [l for l in p.stdout.splitlines() if l.startswith("FAIL")]
    summary = [l for l in p.stdout.splitlines() if l.startswith("SUMMARY")]
    if p.returncode not in (0, 1) or not summary:
        raise vlib.Infra("harness %s crashed (rc=%s): %s %s" % (exe, p.returncode, p.stdout[-500:], p.stderr[-500:]))
    return fails, summary[0], p.returncode


def emit_text(behs):
    out = []
    for o in behs:
        st = 1 if o["status"] == "err" else 0
        out.append("%d %s %d %s %d %d %s" % (len(o["blk"]), " ".join(map(str, o["blk"])), len(o["calls"]),
                                            " ".join(map(str, o["calls"])), st, len(o["out"]), " ".join(map(str, o["out"]))))
    return "\n".join(out) + "\n"


def emit_leg(rep, srcdir, tier, pid="C09"):
    """Emit.tla behaviours replayed through emit().  Returns list of failure strings."""
    exe = vlib.build_harness("replay_emit", "replay_emit.c", srcdir, extra=[os.path.join(srcdir, "crctab.c")])
    runs = [dict(Alphabet={0, 1, 2}, Counts=set(), MaxLen=5, MaxPieces=0, MaxCalls=2),       # every short string
            dict(Alphabet={7, 8}, Counts={0, 3}, MaxLen=0, MaxPieces=4, MaxCalls=1),          # runs, one cut anywhere
            dict(Alphabet={7}, Counts={255}, MaxLen=0, MaxPieces=3, MaxCalls=1)]              # long runs
    if tier == "thorough":
        runs += [dict(Alphabet={0, 1, 2, 3}, Counts=set(), MaxLen=6, MaxPieces=0, MaxCalls=2),
                 dict(Alphabet={7, 8}, Counts={0, 1}, MaxLen=0, MaxPieces=3, MaxCalls=2),
                 dict(Alphabet={7}, Counts={1, 255}, MaxLen=0, MaxPieces=2, MaxCalls=2)]
    fails = []
    for i, consts in enumerate(runs):
        behs, r = gen("Emit", consts, ["Correct", "Export"], "emit%d" % i)
        if behs is None:
            raise vlib.Infra("Emit.tla does not satisfy its own Correct invariant for %s:\n%s" % (consts, r.text[-1500:]))
        rep.add("states", r.distinct)
        rep.add("transitions", r.generated)
        f, summary, rc = run_harness(exe, emit_text(behs))
        rep.add("emit_behaviours_replayed", len(behs))
        rep.add("traces_validated_against_impl", len(behs))
        if behs:
            rep.sample({"emit_behaviour": behs[len(behs) // 2]})
        for line in f[:5]:
            k = int(line.split()[1].rstrip(":"))
            fails.append((line, behs[k - 1]))
    return fails


def rle_text(behs):
    out = []
    for o in behs:
        parts = [str(len(o["inp"]))] + [str(x) for x in o["inp"]] + [str(o["cap"]), str(len(o["calls"]))]
        for c in o["calls"]:
            parts += [str(c["given"]), str(c["used"]), "1" if c["full"] else "0", str(c["st"]), str(c["nblock"])]
        parts += [str(len(o["q"]))] + [str(x) for x in o["q"]]
        out.append(" ".join(parts))
    return "\n".join(out) + "\n"


def rle_leg(rep, srcdir, tier, collect_into=None):
    """Rle.tla (machine = greedy rule, checked by TLC) replayed through collect()."""
    exe = vlib.build_harness("replay_rle", "replay_rle.c", srcdir, extra=[os.path.join(srcdir, "crctab.c")])
    run = lambda x, n: "[j \\in 1..%d |-> %d]" % (n, x)
    longruns = "{%s}" % ", ".join(
        ["%s \\o %s" % (run(7, n), t) for n in ((259, 260, 518) if tier == "quick" else (258, 259, 260, 261, 518, 519))
         for t in (("<<>>", "<<8>>") if tier == "quick" else ("<<>>", "<<8>>", "<<8, 8>>"))] +
        ["<<8>> \\o %s \\o <<7>>" % run(7, 262)])
    cfgs = [dict(defs=dict(Inputs="UNION {[1..n -> {0, 1}] : n \\in 0..8}", Caps="1..7"), MaxCalls=3),
            dict(defs=dict(Inputs="UNION {[1..n -> {0, 1, 2}] : n \\in 0..5}", Caps="1..5"), MaxCalls=3),
            dict(defs=dict(Inputs=longruns, Caps="{5, 6, 10}" if tier == "quick" else "{4, 5, 6, 9, 10, 11}"), MaxCalls=2)]
    if tier == "thorough":
        cfgs += [dict(defs=dict(Inputs="UNION {[1..n -> {0, 1}] : n \\in 9..10}", Caps="1..8"), MaxCalls=3),
                 dict(defs=dict(Inputs="UNION {[1..n -> {0, 1}] : n \\in 0..7}", Caps="1..6"), MaxCalls=4)]
    fails = []
    for i, c in enumerate(cfgs):
        behs, r = gen("Rle", dict(MaxCalls=c["MaxCalls"]), ["Greedy", "Export"], "rle%d" % i, defs=c["defs"], timeout=1500)
        if behs is None:
            raise vlib.Infra("Rle.tla: machine differs from the greedy rule for %s:\n%s" % (c, r.text[-1500:]))
        rep.add("states", r.distinct)
        rep.add("transitions", r.generated)
        f, summary, rc = run_harness(exe, rle_text(behs))
        if collect_into is not None:
            collect_into.extend({"inp": b["inp"], "cap": b["cap"], "used": b["used"]} for b in behs)
        rep.add("rle_behaviours_replayed", len(behs))
        rep.add("traces_validated_against_impl", len(behs))
        if behs:
            b = behs[len(behs) // 3]
            rep.sample({"rle_behaviour": {k: (v if k != "inp" or len(v) < 40 else v[:20] + ["..."]) for k, v in b.items() if k != "q"}})
        for line in f[:5]:
            k = int(line.split()[1].rstrip(":"))
            fails.append((line, behs[k - 1]))
    return fails
