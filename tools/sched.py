#!/usr/bin/python3
"""Scheduler-level legs shared by the checks of C01, C03, C09, C10, C11, C12, C13, C18:
(M) model checking of MCCompress / MCExpand with the policy constants read from the binary,
(V) traced, perturbed runs of the real binary validated against TraceCompress / TraceExpand."""
import bz2, json, os, random, shutil, sys
sys.path.insert(0, os.path.dirname(os.path.abspath(__file__)))
import vlib, campaign, mc, shapes, bzcraft


# ------------------------------------------------------------------ policy constants of the binary
def policy_of(exe):
    """Thresholds and task priority lists as logged by the binary's own Init events."""
    data = b"policy probe\n" * 10
    t = campaign.traced_run(exe, ["-n", "2"], "probe-c", stdin=data, timeout=20)
    if t.run.rc != 0:
        raise vlib.Infra("probe compression failed: rc=%s %s" % (t.run.rc, t.run.err[:200]))
    t2 = campaign.traced_run(exe, ["-d", "-n", "2"], "probe-d", stdin=t.run.out, timeout=20)
    if t2.run.rc != 0:
        raise vlib.Infra("probe decompression failed: rc=%s %s" % (t2.run.rc, t2.run.err[:200]))
    pol = {}
    for tr in (t, t2):
        for line in open(tr.trace):
            ev = json.loads(line)
            if ev["e"] == "Init":
                pol["compress"] = dict(Thresh=ev["thresh"], Prio=ev["tasks"])
            elif ev["e"] == "InitX":
                pol["expand"] = dict(ScanTh=ev["sth"], EmitTh=ev["eth"], Prio=ev["tasks"], UnordTh=ev["uth"])
    if "compress" not in pol or "expand" not in pol:
        raise vlib.Infra("Init events missing from the probe traces (hooks removed?)")
    return pol


def mc_leg(rep, kind, table, pol, liveness=True, par=4, workers=4, timeout=1500):
    """Model-check the given configurations with the binary's policy constants.  Returns the
    list of failing (name, consts, TlcResult)."""
    cfgs = []
    for name, c in table:
        c = dict(c)
        if kind == "compress":
            c["Thresh"] = pol["compress"]["Thresh"]
            c["Prio"] = pol["compress"]["Prio"]
        else:
            c["ScanTh"] = pol["expand"]["ScanTh"]
            c["EmitTh"] = pol["expand"]["EmitTh"]
            c["Prio"] = pol["expand"]["Prio"]
        cfgs.append((name, c))
    res = mc.run_many(kind, cfgs, liveness=liveness, par=par, workers=workers, timeout=timeout)
    bad = []
    for name, c, r in res:
        if getattr(r, "timed_out", False) and not (r.violated or r.temporal or r.deadlock):
            # not finished within its time: counted with what was explored, no verdict from this configuration
            rep.add("states", r.distinct)
            rep.add("transitions", r.generated)
            rep.add("mc_configs_not_finished")
            rep.notes.append("model checking of %s did not finish within %d s (%d distinct states explored, no error so far)" % (name, timeout, r.distinct))
            continue
        if not (r.completed or r.violated or r.temporal or r.deadlock):
            raise vlib.Infra("TLC failed on %s:\n%s" % (name, r.text[-2000:]))
        rep.add("states", r.distinct)
        rep.add("transitions", r.generated)
        rep.add("mc_configs")
        if liveness and not getattr(r, "liveness", True):
            rep.add("mc_configs_safety_only")
        if not r.ok:
            bad.append((name, c, r))
    return bad


def mc_legs(rep, legs, pol, liveness=True, timeout=900):
    """Several legs at once (all configurations share the 16 cores)."""
    from concurrent.futures import ThreadPoolExecutor
    n = sum(len(t) for _, t in legs)
    par = min(6, max(1, n))
    workers = max(2, vlib.NCPU // par)
    with ThreadPoolExecutor(max_workers=len(legs)) as ex:
        futs = [ex.submit(mc_leg, rep, kind, table, pol, liveness, max(1, par // len(legs)), workers, timeout)
                for kind, table in legs]
        out = []
        for f in futs:
            out += f.result()
    return out


# ------------------------------------------------------------------ real runs
class Case:
    """One stimulus for a run of the binary.
    mode: "stdin" (regular file on fd 0), "pipe" (pipe on fd 0), "file" (FILE operand, output
    FILE.bz2 / FILE.out read back), "cfile" (-c FILE).  shim: dict of VERIF_IO_* variables
    (short reads / writes through harness/preload_io.c)."""

    def __init__(self, label, args, data, env, expect_out=None, expect_fail=False, kind=None, timeout=30,
                 mode="stdin", shim=None, outpipe=False, outnull=False):
        self.label, self.args, self.data, self.env = label, args, data, env
        self.expect_out, self.expect_fail, self.kind, self.timeout = expect_out, expect_fail, kind, timeout
        self.mode, self.shim, self.outpipe, self.outnull = mode, shim, outpipe, outnull


import itertools
_case_id = itertools.count(1)


def run_cases(exe, cases, par=None):
    d = vlib.subdir("in")
    shim = vlib.build_shim() if any(c.shim for c in cases) else None

    def go(c):
        n = next(_case_id)
        env = dict(c.env)
        if c.shim:
            env.update(c.shim)
            env["LD_PRELOAD"] = shim
        if c.mode in ("file", "cfile"):
            wd = os.path.join(d, "w%d_%d" % (os.getpid(), n))
            os.makedirs(wd)
            name = "x.bz2" if c.kind == "expand" else "x"
            with open(os.path.join(wd, name), "wb") as f:
                f.write(c.data)
            args = list(c.args) + (["-c"] if c.mode == "cfile" else ["-k"]) + [name]
            t = campaign.traced_run(exe, args, c.label, env=env, timeout=c.timeout, kind=c.kind, cwd=wd)
            if c.mode == "file":
                outn = os.path.join(wd, "x" if c.kind == "expand" else "x.bz2")
                t.run.out = open(outn, "rb").read() if os.path.exists(outn) else b""
                t.outfile_exists = os.path.exists(outn)
                t.input_exists = os.path.exists(os.path.join(wd, name))
            shutil.rmtree(wd, ignore_errors=True)
        elif c.mode == "pipe":
            t = campaign.traced_run(exe, c.args, c.label, stdin=c.data, env=env, timeout=c.timeout, kind=c.kind)
        else:
            p = os.path.join(d, "i%d_%d" % (os.getpid(), n))
            with open(p, "wb") as f:
                f.write(c.data)
            t = campaign.traced_run(exe, c.args, c.label, stdin_file=p, env=env, timeout=c.timeout, kind=c.kind,
                                    stdout_file="/dev/null" if c.outnull else None)
            os.unlink(p)
        t.case = c
        return t
    return campaign.parallel(go, cases, par=par)


def judge(rep, runs, pid):
    """Observed misbehaviour of the real binary: hang, death by signal, wrong status, stderr
    noise on success, wrong bytes.  Each is re-run once before it is reported."""
    bad = []
    for t in runs:
        c, r = t.case, t.run
        why = None
        if r.timed_out:
            why = "hang: no termination within %ds" % c.timeout
        elif r.rc is not None and r.rc < 0:
            why = "killed by signal %d (%s)" % (-r.rc, r.err[-200:].decode("latin1"))
        elif c.expect_fail:
            if r.rc != 1:
                why = "exit status %s on input whose sequential decoding fails (expected 1)" % r.rc
        else:
            if r.rc != 0:
                why = "exit status %s (%s)" % (r.rc, r.err[-200:].decode("latin1"))
            elif r.err:
                why = "standard error not empty: %r" % r.err[:200]
            elif c.expect_out is not None and r.out != c.expect_out:
                why = "wrong output bytes (%d vs %d expected)" % (len(r.out), len(c.expect_out))
        rep.add("impl_runs")
        if why:
            bad.append((t, why))
    return bad


def save_stimulus(pid, tag, t, extra=None):
    """Keep the stimulus of a failing run under /verif/replays so it can be replayed."""
    d = os.path.join(vlib.VERIF, "replays")
    os.makedirs(d, exist_ok=True)
    inp = os.path.join(d, "%s-%s.in" % (pid, tag))
    with open(inp, "wb") as f:
        f.write(t.case.data)
    obj = dict(kind="run", args=t.case.args, env={k: v for k, v in t.case.env.items() if k != "VERIF_TRACE"},
               input=inp, label=t.label, rc=t.run.rc, timed_out=t.run.timed_out,
               stderr=t.run.err[-500:].decode("latin1"), expect_fail=t.case.expect_fail)
    if t.trace and os.path.exists(t.trace):
        lines = open(t.trace).read().splitlines()
        obj["trace_tail"] = lines[-40:]
    if extra:
        obj.update(extra)
    return obj


def report_runs(rep, pid, exe, bad, tagbase):
    """Re-run each failing stimulus several times; report it when it fails again."""
    n = 0
    seen = set()
    for t, why in bad:
        if n >= 8:                               # enough to report; re-running hundreds of hanging stimuli takes hours
            rep.add("failures_not_rerun", len(bad))
            break
        key = (t.case.label.split("|")[0], why.split(":")[0])
        if key in seen:
            rep.add("duplicate_failures")
            continue
        again = run_cases(exe, [t.case] * 2)
        rebad = judge(vlib.Report(pid, rep.level, rep.tier), again, pid)
        if not rebad and not t.case.env.get("VERIF_SCHED_SEED"):
            rep.notes.append("not reproduced on re-run: %s: %s" % (t.label, why))
            continue
        seen.add(key)
        cls = "hang" if t.run.timed_out else ("crash" if (t.run.rc or 0) < 0 else "wrong-result")
        obj = save_stimulus(pid, "%s%d" % (tagbase, n), t, dict(cls=cls, why=why, reproduced=len(rebad)))
        rep.violation("%s: %s [%s]" % (cls, why, t.label), obj)
        n += 1


def report_rejections(rep, pid, rejections, tagbase):
    n = 0
    pol = []
    for t, layer, reason, lines in rejections:
        if layer == "policy":
            pol.append((t, reason))
            continue
        obj = dict(kind="trace", cls="trace-rejected", layer=layer, reason=reason, label=t.label, args=t.argv,
                   env={k: v for k, v in t.env.items() if k != "VERIF_TRACE"})
        d = os.path.join(vlib.VERIF, "replays")
        os.makedirs(d, exist_ok=True)
        p = os.path.join(d, "%s-%s%d.ndjson" % (pid, tagbase, n))
        with open(p, "w") as f:
            f.writelines(lines)
        obj["trace"] = p
        rep.violation("recorded execution is not a behaviour of the specification (%s layer): %s [%s]"
                      % (layer, reason, t.label), obj)
        n += 1
    return pol


# ------------------------------------------------------------------ shared stimuli
def planted_files(rng, full=True):
    """(name, file bytes, expected plaintext or None when the sequential decoding fails, I/O block size)"""
    out = []
    for iob in (256, 1024):
        d, p = bzcraft.f1_file(iob)
        out.append(("f1_%d" % iob, d, p, iob))
        d, p = bzcraft.f2_file(iob)
        out.append(("f2_%d" % iob, d, p, iob))
    d, p = bzcraft.garbage_with_block()
    out.append(("garbage_blk", d, p, 64))
    d, p = bzcraft.garbage_with_stream()
    out.append(("garbage_stream", d, p, 64))
    d, p = bzcraft.nested_valid_file()
    out.append(("nested_valid", d, p, 64))
    d, p = bzcraft.nested_valid_file(iob=128)
    out.append(("nested_valid_128", d, p, 128))
    d, p = bzcraft.straddle_file(256)
    out.append(("straddle_256", d, p, 256))
    if full:
        # sequential decoding fails: same planted files with the last block's CRC / the stream CRC damaged
        d, p = bzcraft.nested_valid_file()
        ins = bzfmt_inspect(d)
        b = ins.blocks[-1]
        bad = bytearray(d)
        pos = b.at["crc"][0] + 7
        bad[pos // 8] ^= 0x80 >> (pos % 8)
        out.append(("nested_valid_badcrc", bytes(bad), None, 64))
        d, p = bzcraft.f1_file(256)
        bad = bytearray(d)
        bad[-2] ^= 0x10                               # stream CRC
        out.append(("f1_256_badstream", bytes(bad), None, 256))
    multi = bz2.compress(rng.randbytes(5000), 1) + bz2.compress(b"abc" * 3000, 9) + bz2.compress(b"", 5)
    out.append(("multi", multi, bz2.decompress(multi), 128))
    # a head block that needs many output buffers, closely followed by many cheap blocks: the later blocks must not be
    # able to take the output slots the head block still needs (the reservation thresholds of can_emit / can_retrieve)
    longhead = bz2.compress(b"\0" * 70000, 1) + b"".join(bz2.compress(b"cheap block %d\n" % i, 1) for i in range(40))
    out.append(("longhead", longhead, bz2.decompress(longhead), 128))
    return out


def bzfmt_inspect(d):
    import bzfmt
    return bzfmt.inspect(d)


def expand_cases(files, seeds, configs, extra_args=()):
    cases = []
    for name, data, plain, iob in files:
        for s in seeds:
            for W, tin, tout, og in configs:
                env = {"VERIF_SCHED_SEED": s, "VERIF_IN_GRANUL": iob, "VERIF_OUT_GRANUL": og,
                       "VERIF_IN_SLOTS": tin, "VERIF_OUT_SLOTS": tout}
                # every third seed with a consumer slower than the workers: all output slots fill, the queues that count
                # blocks (order_q, reord_q, output_q) reach their capacity
                if s % 3 == 2:
                    env["VERIF_DELAY"] = "write:0=3000"
                cases.append(Case("%s|d W=%d %s" % (name, W, env), ["-d", "-n", str(W)] + list(extra_args), data, env,
                                  expect_out=plain, expect_fail=plain is None, kind="expand", timeout=40 if s % 3 == 2 else 20))
    return cases


def event_counts(runs):
    """Non-vacuity: how often each discard / take path of the decompressor was really exercised."""
    import collections
    c = collections.Counter()
    for t in runs:
        if not t.trace or not os.path.exists(t.trace):
            continue
        for line in open(t.trace):
            if '"e":"ScanEnd"' in line and '"kind":"unique"' in line:
                c["scan_unique"] += 1
            elif '"e":"ScanEnd"' in line and '"kind":"known"' in line:
                c["scan_known"] += 1
            elif '"e":"Reorder"' in line and '"kind":"bogus"' in line:
                c["reorder_bogus"] += 1
            elif '"e":"RetrEnd"' in line:
                for k in ("dead", "redundant", "overtaken"):
                    if '"kind":"%s"' % k in line:
                        c["retr_" + k] += 1
            elif '"e":"ParseBlock"' in line:
                if '"kind":1' in line:
                    c["parse_took_complete"] += 1
                elif '"kind":2' in line:
                    c["parse_took_incomplete"] += 1
                if '"stale":0' not in line:
                    c["parse_discarded_stale"] += 1
            elif '"e":"AvailDrop"' in line:
                c["avail_dropped_after_finish"] += 1
    return dict(c)
