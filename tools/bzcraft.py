#!/usr/bin/python3
"""Planted-pattern bzip2 files: valid files whose Huffman-coded payload spells the 48-bit
block-header pattern (spurious candidates for the parallel scanner), sized against a given
I/O-block size so that tiny VERIF_IN_GRANUL values reproduce the multi-I/O-block shapes the
Expand model explores."""
import random
import bzfmt
from bzfmt import BitWriter

MAGIC_NIBBLES = [3, 1, 4, 1, 5, 9, 2, 6, 5, 3, 5, 9]
USED14 = [0x41 + i for i in range(14)]        # 14 bytes -> 16 symbols -> all codes 4 bits, code == symbol


def _bits(n, v):
    return [(v >> i) & 1 for i in range(n - 1, -1, -1)]


def _nibbles(bits):
    assert len(bits) % 4 == 0
    return [bits[i] * 8 + bits[i + 1] * 4 + bits[i + 2] * 2 + bits[i + 3] for i in range(0, len(bits), 4)]


def nibble_block(syms, idx=0, extra_tables=None, selectors=None):
    """Block over USED14 whose symbols (0..15; 15 = EOB last) are coded with 4-bit codes."""
    tt, r, plain = bzfmt.symbols_plain(syms, USED14, idx)
    bzfmt.unrle(r)                      # raises ValueError when the block would end without a run count
    crc = bzfmt.bzcrc(plain)
    tables = [[4] * 16, [4] * 16] if extra_tables is None else extra_tables
    ng = (len(syms) + 49) // 50
    sels = selectors or [0] * ng
    return bzfmt.block_writer(syms, USED14, idx, tables, sels, crc), crc, plain


def failing_candidate():
    """nibbles spelling: block magic, a fake CRC, then zero bits (rand, index, empty bitmap) ->
    the nested candidate fails at once with "empty source alphabet"."""
    return MAGIC_NIBBLES + [7] * 8 + [0] * 12


def long_candidate_header(n2):
    """nibbles spelling: block magic, fake CRC and a complete nested block header (14-byte
    alphabet, two 4-bit tables, n2 selectors) none of whose nibbles is 0xF (EOB of the outer
    block); what follows in the outer payload is then decoded as the nested block's symbols."""
    used2 = [0x40 + i for i in range(16) if (0x7777 >> (15 - i)) & 1] + \
            [0x50 + i for i in range(16) if (0x6000 >> (15 - i)) & 1]
    assert len(used2) == 14
    b = _bits(1, 0) + _bits(24, 0)
    packs = [0] * 16
    for x in used2:
        packs[x >> 4] |= 0x8000 >> (x & 15)
    big = 0
    for i in range(16):
        if packs[i]:
            big |= 0x8000 >> i
    b += _bits(16, big)
    for i in range(16):
        if packs[i]:
            b += _bits(16, packs[i])
    b += _bits(3, 2) + _bits(15, n2)
    b += [0] + [1, 0] * (n2 - 1)
    for _ in range(2):
        w = bzfmt.table_bits([4] * 16)
        b += _bits(w.n, w.value)
    assert len(b) % 4 == 0
    nib = _nibbles(b)
    assert 15 not in nib and 0 not in nib[:0]
    return MAGIC_NIBBLES + [7] * 8 + nib


def f2_file(iob, seed=2, tail_syms=3000, n2=None):
    """One valid block spanning several I/O blocks of `iob` bytes.  Its first part is
    nibble-coded and contains a nested candidate that is still being retrieved when its
    I/O block ends (the retriever returns MORE)."""
    rng = random.Random(seed)
    if n2 is None:
        n2 = max(8, (iob // 8) * 2)           # even, keeps the header nibble aligned
    n2 += n2 % 2
    pre = [rng.randrange(2, 15) for _ in range(40)]
    region1 = pre + long_candidate_header(n2)
    target = 2 * (3 * iob + 4) + 200           # nibbles: well past three I/O blocks
    region1 += [rng.randrange(2, 15) for _ in range(max(0, target - len(region1)))]
    while len(region1) % 50:
        region1.append(rng.randrange(2, 15))
    region2 = [2 + (i & 1) for i in range(tail_syms)]
    syms = region1 + region2 + [15]
    lens1 = [1, 2, 15, 15] + list(range(3, 14)) + [14]
    g1 = len(region1) // 50
    ng = (len(syms) + 49) // 50
    sels = [0] * g1 + [1] * (ng - g1)
    try:
        bw, crc, plain = nibble_block(syms, extra_tables=[[4] * 16, lens1], selectors=sels)
    except ValueError:
        return f2_file(iob, seed + 1000, tail_syms, n2)
    return bzfmt.stream_bytes([(bw, crc)], 9), plain


def f1_file(iob, seed=1, d_len=30000):
    """Block B (nibble coded, with a nested candidate that fails at once), block C whose
    header straddles an I/O-block boundary (file offset 4 + k*iob), block D that expands to
    d_len zero bytes (many output buffers at a small VERIF_OUT_GRANUL)."""
    rng = random.Random(seed)
    pre = [rng.randrange(2, 15) for _ in range(30)]
    plainC = b"hello world, block C\n" * 3
    bwC, crcC = bzfmt.simple_block(plainC)
    plainD = b"\0" * d_len
    bwD, crcD = bzfmt.simple_block(plainD)
    # size B so that C's 48-bit magic starts 3 bytes before a boundary
    for nfill in range(200, 200 + 4 * iob):
        syms = pre + failing_candidate() + [5] + [rng.randrange(2, 15) for _ in range(nfill)] + [15]
        hdr = 48 + 32 + 1 + 24 + 16 + 16 * 1 + 3 + 15 + ((len(syms) + 49) // 50) + 2 * (5 + 16)
        endbit = 32 + hdr + 4 * len(syms)
        # C's magic occupies [endbit, endbit+48); boundary at bit 8*(4+k*iob)
        k = (endbit // 8 - 4) // iob + 1
        bound = 8 * (4 + k * iob)
        if endbit < bound < endbit + 48 and bound - endbit >= 16:
            try:
                bwB, crcB, plainB = nibble_block(syms)
                break
            except ValueError:          # would end in four equal bytes without a count: try another fill
                continue
    else:
        raise RuntimeError("no straddling size found")
    assert 32 + bwB.n == endbit, (bwB.n + 32, endbit)
    data = bzfmt.stream_bytes([(bwB, crcB), (bwC, crcC), (bwD, crcD)], 9)
    return data, plainB + plainC + plainD


def garbage_with_block(seed=3):
    """A complete stream followed by trailing garbage that contains a whole valid block."""
    rng = random.Random(seed)
    a = b"first stream\n" * 20
    bwA, crcA = bzfmt.simple_block(a)
    s1 = bzfmt.stream_bytes([(bwA, crcA)], 9)
    bwG, crcG = bzfmt.simple_block(b"garbage block that must never be written\n" * 10)
    junk = bytes(rng.randrange(256) for _ in range(37))
    junk = junk.replace(b"BZh", b"BZx")
    return s1 + b"\x00junk" + junk + bwG.bytes() + junk, a


# ------------------------------------------------------------------ byte-coded carrier blocks
USED255 = list(range(255))          # 255 bytes in use -> 257 symbols: 255 codes of 8 bits, 2 of 9 bits
LENS257 = [8] * 255 + [9, 9]


def byte_block(payload, idx=0):
    """A valid block whose Huffman-coded payload is `payload` verbatim (no 0xFF byte allowed):
    byte b is the 8-bit code of symbol b (0/1 = run symbols, 2..254 = MTF positions); the end
    of block is the 9-bit code 0x1FF.  Anything can therefore be planted in compressed data,
    at any bit offset."""
    assert 0xFF not in payload
    syms = list(payload) + [256]
    tt, r, plain = bzfmt.symbols_plain(syms, USED255, idx % max(1, 1))
    bzfmt.unrle(r)
    crc = bzfmt.bzcrc(plain)
    ng = (len(syms) + 49) // 50
    bw = bzfmt.block_writer(syms, USED255, 0, [LENS257, LENS257], [0] * ng, crc)
    return bw, crc, plain


def _filler(rng, n):
    return bytes(rng.randrange(2, 255) for _ in range(n))


def _try(fn, tries=200):
    for i in range(tries):
        try:
            return fn(i)
        except (ValueError, AssertionError):
            continue
    raise RuntimeError("could not build planted file")


def nested_valid_file(seed=5, iob=None, inner_text=b"nested block that must never be written\n" * 4, pad=64):
    """Valid two-block file whose first block carries, verbatim inside its compressed data,
    a complete valid block (magic, correct CRC, decodable) - a spurious candidate that decodes
    successfully.  Returns (file bytes, expected plaintext)."""
    def build(i):
        rng = random.Random(seed * 1000 + i)
        text = inner_text + bytes([65 + i % 26]) * (i % 7)
        ibw, icrc = bzfmt.simple_block(text)
        inner = ibw.bytes()                          # zero padded to a byte
        payload = _filler(rng, pad) + inner + _filler(rng, pad + 2 * (iob or 0))
        bw, crc, plain = byte_block(payload)
        tail = b"second block\n" * 5
        bw2, crc2 = bzfmt.simple_block(tail)
        return bzfmt.stream_bytes([(bw, crc), (bw2, crc2)], 9), plain + tail
    return _try(build)


def straddle_file(iob, seed=6):
    """Valid file with the 48-bit pattern planted twice in compressed data: once so that it
    straddles an I/O-block boundary (file offset 4 + k*iob), once wholly inside a block."""
    def build(i):
        rng = random.Random(seed * 1000 + i)
        magic = bytes.fromhex("314159265359") + bytes([0x11, 0x22, 0x33, 0x44])
        hdr_bytes = 4 + 28                            # stream header + outer block header (approx.)
        payload = bytearray(_filler(rng, 3 * iob + 64))
        k = 2
        pos = 4 + k * iob - 3 - hdr_bytes             # payload index: pattern crosses the boundary
        payload[pos:pos + len(magic)] = magic
        pos2 = pos + iob // 2
        payload[pos2:pos2 + len(magic)] = magic
        bw, crc, plain = byte_block(bytes(payload))
        return bzfmt.stream_bytes([(bw, crc)], 9), plain
    return _try(build)


def garbage_with_stream(seed=7):
    """A complete stream, then garbage, then another complete valid stream inside the garbage:
    everything after the first stream is trailing garbage and must be ignored."""
    rng = random.Random(seed)
    a = b"the only stream that counts\n" * 12
    bwA, crcA = bzfmt.simple_block(a)
    s1 = bzfmt.stream_bytes([(bwA, crcA)], 9)
    bwG, crcG = bzfmt.simple_block(b"a whole valid stream hidden in trailing garbage\n" * 6)
    s2 = bzfmt.stream_bytes([(bwG, crcG)], 9)
    junk = bytes(rng.randrange(256) for _ in range(21)).replace(b"BZ", b"bz")
    return s1 + b"\x01" + junk + s2 + junk, a


if __name__ == "__main__":
    import bz2, sys
    for iob in (256, 1024):
        d, p = f2_file(iob)
        assert bz2.decompress(d) == p
        print("f2", iob, len(d), len(p))
        d, p = f1_file(iob)
        assert bz2.decompress(d) == p
        print("f1", iob, len(d), len(p))
    d, p = garbage_with_block()
    ins = bzfmt.inspect(d)
    print("garbage", ins.valid, ins.trailing, ins.plain == p)
    for name, (d, p) in (("nested", nested_valid_file()), ("straddle", straddle_file(256)), ("gstream", garbage_with_stream())):
        ins = bzfmt.inspect(d)
        try:
            ref = bz2.decompress(d)
        except Exception as e:
            ref = repr(e)
        print(name, len(d), ins.valid, ins.reason, ins.trailing, ins.plain == p, ref == p if isinstance(ref, bytes) else ref)
