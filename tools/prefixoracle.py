#!/usr/bin/python3
"""Evaluates spec/Prefix.tla with TLC: (a) proves package-merge = brute-force optimum on a small
domain, (b) checks a list of recovered tables [f, l] for completeness, length <= 20 and optimal cost."""
import json, os, sys
sys.path.insert(0, os.path.dirname(os.path.abspath(__file__)))
import vlib


def _run(mode, consts, env=None, timeout=1800, tag="pf"):
    d = vlib.spec_workdir(tag, ["Prefix.tla"])
    with open(os.path.join(d, "P.cfg"), "w") as f:
        f.write('SPECIFICATION Spec\nCONSTANTS Mode = "%s"\n MaxN = %d\n MaxF = %d\n MaxL = %d\n'
                'INVARIANTS PMisOptimal TablesOptimal\nCHECK_DEADLOCK FALSE\n' % (mode, consts[0], consts[1], consts[2]))
    return vlib.tlc(d, "Prefix.tla", "P.cfg", env=env, workers=1, timeout=timeout, xmx="6g")


def prove(rep, tier):
    consts = (4, 3, 3) if tier == "quick" else (5, 4, 4)
    r = _run("prove", consts, tag="pf_prove")
    if not r.ok:
        raise vlib.Infra("Prefix.tla: package-merge differs from the brute-force optimum:\n" + r.text[-1500:])
    n, f, L = consts
    rep.add("oracle_proof_obligations", sum((f + 1) ** k * L for k in range(2, n + 1)))
    rep.add("states", r.distinct)
    rep.add("transitions", r.generated)


def _check_chunk(args):
    chunk, base, tag = args
    bad = []
    p = os.path.join(vlib.subdir("tables"), "%s_%d.json" % (tag, base))
    rest = chunk
    while rest:
        with open(p, "w") as f:
            json.dump(rest, f)
        r = _run("tables", (2, 1, 1), env={"TABLES": p}, tag="%s_%d" % (tag, base))
        if r.ok:
            break
        if "TablesOptimal" not in r.violated:
            raise vlib.Infra("Prefix.tla failed on recovered tables:\n" + r.text[-1500:])
        import re
        m = re.findall(r'<<"SUBOPTIMAL", (\d+), (\d+), (\d+), (\d+)>>', r.text)
        if not m:
            raise vlib.Infra("Prefix.tla: violation without a SUBOPTIMAL line:\n" + r.text[-1500:])
        i = int(m[0][0]) - 1
        bad.append((base + i, int(m[0][1]), int(m[0][2]), int(m[0][3])))
        base += i + 1
        rest = rest[i + 1:]
    return bad


def check_tables(tables, tag="pf_tab", chunk=40, par=6):
    """tables: list of dict(f=[..], l=[..]).  Returns [(index, cost, optimum, max length)] of the tables
    that are not complete / longer than 20 bits / not of optimal cost (several TLC processes side by side)."""
    from concurrent.futures import ThreadPoolExecutor
    jobs = [(tables[s:s + chunk], s, tag) for s in range(0, len(tables), chunk)]
    with ThreadPoolExecutor(max_workers=par) as ex:
        res = list(ex.map(_check_chunk, jobs))
    return sorted(x for r in res for x in r)
