#!/usr/bin/python3
"""Replay of spec/FileOps.tla scenarios against the real binary: builds the file-system objects of a
scenario in a scratch directory, runs lbzip2 on the operand list, and compares names, contents,
permission bits, timestamps, what was removed and the exit status with the specification's outcome."""
import bz2, os, shutil, stat, sys
sys.path.insert(0, os.path.dirname(os.path.abspath(__file__)))
import vlib

P = [b"plain text of operand %d\n" % i * (30 + 7 * i) for i in range(1, 6)]
OLD = b"pre-existing output, must survive without -f\n"
BITS = {"0644": 0o644, "0600": 0o600, "0755": 0o755, "0640": 0o640, "4755": 0o4755}
ATIME_NS = 1_200_000_000_123_456_789
MTIME_NS = 1_300_000_000_987_654_321


def setup(d, sc):
    """creates the objects; returns per operand dict(name, target, content, outname, ...)"""
    dec = sc["dec"]
    info = []
    for i, (op, eff) in enumerate(zip(sc["ops"], sc["effects"]), 1):
        bare = op.get("stem", "x") == ""
        name = op["suffix"] if bare else "x%d%s" % (i, op["suffix"])
        outname = eff["outname"] if bare else "x%d%s" % (i, eff["outname"][1:])
        plain = P[i - 1]
        if not dec and op["content"] == "bad":
            plain = b"this is not a bzip2 file at all, just text\n" * 3      # any bytes are fine to compress
        good = bz2.compress(plain) if dec else plain
        # (every other non-bzip2 operand is several 64 KiB copy buffers long)
        junk = b"this is not a bzip2 file at all, just text\n" * (3 if i % 2 else 9000)
        content = good if (op["content"] == "good" or not dec) else junk
        path = os.path.join(d, name)
        target = path
        k = op["kind"]
        if k in ("regular", "hardlink"):
            with open(path, "wb") as f:
                f.write(content)
            if k == "hardlink":
                os.link(path, os.path.join(d, "link%d" % i))
        elif k == "symlink":
            target = os.path.join(d, "target%d" % i)
            with open(target, "wb") as f:
                f.write(content)
            os.symlink("target%d" % i, path)
        elif k == "directory":
            os.mkdir(path)
        elif k == "fifo":
            os.mkfifo(path)
        if k in ("regular", "hardlink", "symlink"):
            os.chmod(target, BITS[op["bits"]])
            os.utime(target, ns=(ATIME_NS + i, MTIME_NS + i))
        ex = op["existing"]
        opath = os.path.join(d, outname)
        if ex == "file" and not os.path.lexists(opath):
            with open(opath, "wb") as f:
                f.write(OLD)
        elif ex == "directory" and not os.path.lexists(opath):
            os.mkdir(opath)
        info.append(dict(name=name, outname=outname, content=content, plain=plain, target=target, kind=k, existing=ex,
                         bits=op["bits"], notbz=(dec and op["content"] != "good")))
    return info


def snapshot(d):
    out = {}
    for n in sorted(os.listdir(d)):
        p = os.path.join(d, n)
        st = os.lstat(p)
        if stat.S_ISLNK(st.st_mode):
            out[n] = ("symlink", os.readlink(p))
        elif stat.S_ISDIR(st.st_mode):
            out[n] = ("directory",)
        elif stat.S_ISFIFO(st.st_mode):
            out[n] = ("fifo",)
        else:
            fd = os.open(p, os.O_RDONLY | os.O_NOATIME)          # reading must not disturb the access time
            try:
                data = b""
                while True:
                    chunk = os.read(fd, 1 << 20)
                    if not chunk:
                        break
                    data += chunk
            finally:
                os.close(fd)
            out[n] = ("file", data, stat.S_IMODE(st.st_mode), st.st_atime_ns, st.st_mtime_ns, st.st_nlink)
    return out


def replay(exe, sc, idx):
    """returns None or a reason string"""
    d = os.path.join(vlib.subdir("fileops"), "s%d" % idx)
    os.makedirs(d)
    try:
        info = setup(d, sc)
        before = snapshot(d)
        opts = sc["opts"]
        args = (["-d"] if sc["mode"] == "decompress" else ["-z"]) + ["-" + o for o in sorted(opts)] + ["-n", "2"]
        errfull = bool(sc.get("errfull"))
        r = vlib.run([exe] + args + [x["name"] for x in info], cwd=d, timeout=30, stderr_file="/dev/full" if errfull else None)
        after = snapshot(d)
        if r.timed_out:
            return "hang"
        if (r.rc or 0) < 0:
            return "killed by signal %d" % -r.rc
        if r.rc != sc["status"]:
            return "exit status %s, specification says %d (%s)" % (r.rc, sc["status"], r.err[-160:].decode("latin1").strip())
        om, dec = sc["om"], sc["dec"]
        expect = dict(before)
        stdout_want = b""
        for i, (x, eff) in enumerate(zip(info, sc["effects"]), 1):
            if i > sc["processed"] + 1:
                break                                     # never reached: a fatal error stopped the run
            if eff["outcome"] == "done":
                want = x["plain"] if dec else None        # compressed output: judged by decoding it
                if om == "stdout":
                    # -cdf copies what is not bzip2 data through unchanged
                    stdout_want += (x["content"] if x["notbz"] else x["plain"]) if dec else b"\0COMP%d" % i
                elif om == "regf":
                    src = before[os.path.basename(x["target"])]
                    expect[x["outname"]] = ("out", i, src[2] & 0o777, src[3], src[4])
                    if eff["removes_input"]:
                        expect.pop(x["name"], None)
            elif eff["outcome"] == "fatal":
                if x["existing"] == "file" and "f" in opts and om == "regf" and not eff["reason"].startswith("cannot print"):
                    expect.pop(x["outname"], None)        # -f removed it before the failure
        # compare the directory
        for n in sorted(set(expect) | set(after)):
            e, a = expect.get(n), after.get(n)
            if e is None:
                return "unexpected file %r after the run" % n
            if a is None:
                return "%r is gone after the run" % n
            if e[0] == "out":
                if a[0] != "file":
                    return "output %r is not a regular file" % n
                i = e[1]
                data = a[1]
                plain = info[i - 1]["plain"]
                if dec:
                    if data != plain:
                        return "output %r has wrong contents" % n
                else:
                    try:
                        if bz2.decompress(data) != plain:
                            return "output %r does not decode to the input" % n
                    except Exception as ex:
                        return "output %r is not a bzip2 file (%s)" % (n, ex)
                if a[2] != e[2]:
                    return "output %r has permission bits %o, input had %o" % (n, a[2], e[2])
                if (a[3], a[4]) != (e[3], e[4]):
                    return "output %r: access/modification times differ from the input's" % n
            elif e[0] == "file":
                if a[0] != "file" or a[1] != e[1]:
                    return "%r was modified" % n
            elif a[0] != e[0]:
                return "%r changed its type" % n
        if om == "stdout" and sc["status"] != 1:          # (after a fatal error what reached stdout is unspecified)
            if dec:
                if r.out != stdout_want:
                    return "standard output differs from the concatenated decodings"
            else:
                try:
                    want = b"".join(x["plain"] for x, eff in zip(info, sc["effects"]) if eff["outcome"] == "done")
                    if bz2.decompress(r.out) != want if r.out else want != b"":
                        return "standard output does not decode to the concatenated inputs"
                except Exception as ex:
                    return "standard output is not bzip2 data (%s)" % ex
        elif om != "stdout" and r.out:
            return "unexpected data on standard output"
        warn_expected = sc["status"] != 0
        if errfull:
            return None                                   # nothing can be printed
        if warn_expected and not r.err:
            return "no diagnostic although the status is %d" % sc["status"]
        if not warn_expected and r.err and "v" not in opts:
            return "diagnostic on a clean run: %r" % r.err[:120]
        return None
    finally:
        for root, dirs, files in os.walk(d):
            for n in dirs + files:
                try:
                    os.chmod(os.path.join(root, n), 0o700)
                except OSError:
                    pass
        shutil.rmtree(d, ignore_errors=True)
