#!/usr/bin/python3
"""The greedy run-length packing rule of C04 as a plain function over byte strings (no state
machine): a block takes the longest prefix whose canonical encoding (maximal runs cut at 259,
pieces of 4..259 equal bytes -> four copies + count) fits into `cap` bytes.  Calibrated against
spec/Rle.tla by tools/checks/c04.py on every run (same answers on all TLC-generated cases)."""


def canon_len_prefixes(data, start, cap):
    """Length of the longest prefix of data[start:] whose canonical encoding is <= cap bytes."""
    n = len(data)
    i = start
    enc = 0                      # encoded length of data[start:i] where i is at a run-piece boundary
    while i < n:
        x = data[i]
        j = i
        lim = min(n, i + 259)
        while j < lim and data[j] == x:
            j += 1
        run = j - i
        # taking k bytes of this piece costs k (k<=3) or 5 (k>=4)
        if run >= 4:
            if enc + 5 <= cap:
                enc += 5
                i = j
                continue
            k = min(3, cap - enc)
            return i + max(0, k) - start
        if enc + run <= cap:
            enc += run
            i = j
            continue
        return i + (cap - enc) - start
    return n - start


def greedy_blocks(data, cap, chunk=None):
    """List of block lengths (in input bytes).  chunk=None: --sequential (whole input);
    otherwise the input is first cut into pieces of `chunk` bytes, each packed on its own."""
    out = []
    pieces = [(0, len(data))] if chunk is None else [(s, min(len(data), s + chunk)) for s in range(0, len(data), chunk)]
    for s, e in pieces:
        piece = data[s:e]
        pos = 0
        while pos < len(piece):
            k = canon_len_prefixes(piece, pos, cap)
            assert k > 0
            out.append(k)
            pos += k
    return out
