#!/usr/bin/python3
"""Traced runs of the real lbzip2 binary and validation of the recorded traces."""
import bz2, json, os, random, subprocess, sys, time
from concurrent.futures import ThreadPoolExecutor
sys.path.insert(0, os.path.dirname(os.path.abspath(__file__)))
import vlib

MAX_EVENTS = 6000          # per execution; longer traces are not validated (counted)
BATCH_EVENTS = 12000       # per TLC invocation


class Traced:
    def __init__(self, label, argv, env, run, trace, kind):
        self.label, self.argv, self.env, self.run, self.trace, self.kind = label, argv, env, run, trace, kind
        self.events = sum(1 for _ in open(trace)) if trace and os.path.exists(trace) else 0


_counter = [0]


def traced_run(exe, args, label, stdin=b"", stdin_file=None, env=None, timeout=60, kind=None, cwd=None,
               stdout_file=None):
    """Run lbzip2 with VERIF_TRACE set; returns a Traced."""
    d = vlib.subdir("traces")
    _counter[0] += 1
    tr = os.path.join(d, "t%06d.ndjson" % _counter[0])
    e = dict(env or {})
    e["VERIF_TRACE"] = tr
    r = vlib.run([exe] + list(args), stdin=stdin, stdin_file=stdin_file, env=e, timeout=timeout, cwd=cwd,
                 stdout_file=stdout_file)
    if kind is None:
        kind = "expand" if any(a in ("-d", "-t", "-dc", "-cd") or (a.startswith("-") and not a.startswith("--") and "d" in a) for a in args) else "compress"
    return Traced(label, [exe] + list(args), e, r, tr, kind)


def parallel(fn, items, par=None):
    with ThreadPoolExecutor(max_workers=par or vlib.NCPU) as ex:
        return list(ex.map(fn, items))


def _segments(path):
    """Split one process's trace into per-operand segments (Start ... before next Start)."""
    segs, cur = [], []
    for line in open(path):
        if not line.strip():
            continue
        if '"e":"Start"' in line and cur:
            segs.append(cur)
            cur = []
        cur.append(line if line.endswith("\n") else line + "\n")
    if cur:
        segs.append(cur)
    return segs


def _seg_kind(seg):
    head = "".join(seg[:3])
    if '"e":"CopyInit"' in head:
        return "copy"
    if '"e":"InitX"' in head:
        return "expand"
    if '"e":"Init"' in head:
        return "compress"
    try:
        return "expand" if json.loads(seg[0]).get("d") == 1 else "compress"
    except Exception:
        return "unknown"


import itertools, threading
_vid = itertools.count(1)
_vlock = threading.Lock()


MAX_REJECTIONS = 6         # per TLC batch; further rejections are counted, not examined


def _check_units(kind, units, strict, tag, leak=False):
    """One TLC invocation over the concatenation of `units` (each a list of lines)."""
    module = {"compress": "TraceCompress", "expand": "TraceExpand", "copy": "TraceCopy"}[kind]
    with _vlock:
        n = next(_vid)
    d = vlib.subdir("tvin")
    p = os.path.join(d, "%s_%s_%d.ndjson" % (tag, kind, n))
    with open(p, "w") as f:
        for _, lines, _t in units:
            f.write('{"e":"Reset"}\n')
            f.writelines(lines)
    v = vlib.validate_trace(module, p, strict=strict, tag="%s_%s_%d" % (tag, kind, n), leak=leak)
    os.unlink(p)
    return v


def _culprits(kind, units, strict, tag, leak):
    """Validate a batch; on rejection the number of consumed events identifies the unit that
    is rejected: record it, drop it, validate the rest again."""
    out = []
    rest = list(units)
    while rest:
        v = _check_units(kind, rest, strict, tag, leak)
        if v.accepted:
            out += [(u, None) for u in rest]
            break
        # v.matched = events consumed; find the unit containing event number matched+1
        m = v.matched - (1 if "TraceInv" in v.tlc.violated else 0)
        pos, idx = 0, len(rest) - 1
        for i, u in enumerate(rest):
            pos += 1 + len(u[1])
            if m < pos:
                idx = i
                break
        out += [(u, None) for u in rest[:idx]]
        out.append((rest[idx], v))
        rest = rest[idx + 1:]
        if sum(1 for _, x in out if x is not None) >= MAX_REJECTIONS:
            out += [(u, "unexamined") for u in rest]
            break
    return out


def validate(traced_list, rep, strict=True, tag="tv", leak=False):
    """Validate the traces of the given runs against TraceCompress / TraceExpand.
    Returns a list of rejections (Traced, layer, reason, lines); layer is "property" when
    the trace is rejected even without the scheduling-policy conjuncts, else "policy"."""
    units = []            # (kind, lines, traced)
    for t in traced_list:
        if not t.events:
            continue
        if t.events > MAX_EVENTS:
            rep.add("traces_skipped_too_long")
            continue
        segs = _segments(t.trace)
        if t.kind == "compress":
            units.append(("compress", [l for s in segs for l in s], t))   # operands of one process stay together
        else:
            for s in segs:
                k = _seg_kind(s)
                if k == "expand":
                    units.append(("expand", s, t))
                elif k == "copy":
                    units.append(("copy", s, t))
    jobs = []
    for kind in ("compress", "expand", "copy"):
        batch, n = [], 0
        for u in (u for u in units if u[0] == kind):
            if batch and n + len(u[1]) > BATCH_EVENTS:
                jobs.append((kind, batch))
                batch, n = [], 0
            batch.append(u)
            n += len(u[1]) + 1
        if batch:
            jobs.append((kind, batch))
    results = parallel(lambda j: (j[0], _culprits(j[0], j[1], strict, tag, leak)), jobs, par=max(1, vlib.NCPU // 2))
    rejections = []
    for kind, res in results:
        for u, v in res:
            if v == "unexamined":
                rep.add("traces_unexamined_after_rejections")
                continue
            rep.add("traces_validated_against_impl")
            rep.add("trace_events", len(u[1]))
            if v is None:
                continue
            layer, reason = "policy", v.reason
            if strict:
                v2 = _check_units(kind, [u], False, tag, leak)
                if not v2.accepted:
                    layer, reason = "property", v2.reason
            else:
                layer = "property"
            rejections.append((u[2], layer, reason, u[1]))
    return rejections


# ------------------------------------------------------------------ inputs
def gen_inputs(rng, tier):
    """Named plaintext inputs for compression campaigns (small: traces stay short)."""
    out = []
    out.append(("empty", b""))
    out.append(("one", b"x"))
    out.append(("rand3k", bytes(rng.getrandbits(8) for _ in range(3000))))
    out.append(("runs", b"".join(bytes([rng.randrange(4)]) * rng.choice([1, 2, 3, 4, 5, 254, 255, 256, 259, 260, 518]) for _ in range(300))))
    out.append(("alt", b"ab" * 40000))
    fib = [b"a", b"b"]
    while len(fib[-1]) < 120000:
        fib.append(fib[-1] + fib[-2])
    out.append(("fib", fib[-1][:150000]))
    out.append(("text", (b"the quick brown fox jumps over the lazy dog %d\n" * 1)[:0] + b"".join(b"line %d of the text file\n" % i for i in range(12000))))
    out.append(("zeros250k", b"\0" * 250000))
    out.append(("rand250k", rng.randbytes(250000)))
    if tier == "thorough":
        out.append(("rand1m", rng.randbytes(1000000)))
        out.append(("tandem", (rng.randbytes(777) * 400)[:300000]))
        out.append(("near100k", b"q" * 99998 + rng.randbytes(5) + b"z" * 100001))
    return out
