/* Replays operation sequences of spec/Queues.tla through the real deque macros of process.h and the real
   up_heap() / down_heap() of process.c (heap_extract.h is cut out of the working tree's process.c by
   tools/inproc.py).  stdin, one sequence per line:
     D cap nops {op arg}...   deque:  1 push e, 2 pop, 3 shift, 4 unshift e, 5 get i
     P cap nops {op arg}...   pqueue: 1 enqueue prio, 2 dequeue, 3 peek
   Output per line: "R <line> v1 v2 ..." = what each operation returned (the argument for push / unshift /
   enqueue). */
#include <stdio.h>
#include <stdlib.h>
#include <string.h>
#include <assert.h>
#include "common.h"
#include "process.h"
#include "heap_extract.h"

void *xmalloc(size_t n) { void *p = malloc(n ? n : 1); if (!p) abort(); return p; }

int main(void)
{
  char kind;
  long line = 0;
  while (scanf(" %c", &kind) == 1) {
    int cap, nops, i;
    scanf("%d %d", &cap, &nops);
    line++;
    printf("R %ld", line);
    if (kind == 'D') {
      struct deque(int) q;
      deque_init(q, (unsigned)cap);
      for (i = 0; i < nops; i++) {
        int op, arg, r = -1;
        scanf("%d %d", &op, &arg);
        switch (op) {
        case 1: push(q, arg); r = arg; break;
        case 2: r = pop(q); break;
        case 3: r = shift(q); break;
        case 4: unshift(q, arg); r = arg; break;
        case 5: r = dq_get(q, (unsigned)arg); break;
        }
        printf(" %d", r);
      }
      free(q.root);
    }
    else {
      struct pqueue(struct position *) q;
      struct position *pool = calloc((size_t)nops + 1, sizeof *pool);
      int used = 0;
      pqueue_init(q, (unsigned)cap);
      for (i = 0; i < nops; i++) {
        int op, arg, r = -1;
        scanf("%d %d", &op, &arg);
        switch (op) {
        case 1: pool[used].major = (uintmax_t)arg; pool[used].minor = 0; enqueue(q, &pool[used]); used++; r = arg; break;
        case 2: { struct position *p = dequeue(q); r = (int)p->major; } break;
        case 3: r = (int)peek(q)->major; break;
        }
        printf(" %d", r);
      }
      free(q.root);
      free(pool);
    }
    printf("\n");
    fflush(stdout);
  }
  printf("SUMMARY lines=%ld\n", line);
  return 0;
}
