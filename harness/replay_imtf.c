/* Replays behaviours of spec/Imtf.tla through the real mtf_one() of the working tree.
   "replay_imtf consts" prints ROW_WIDTH NUM_ROWS SLIDE_LENGTH CMAP_BASE (the spec's constants are
   taken from the code).  Otherwise stdin, one behaviour per line:  n  then n triples  c ret off0 ;
   the row table is set up the way retrieve() does it (identity alphabet), each call's return value
   and the offset of row 0 afterwards are compared with the spec's, and after the last call the
   rows are read back and compared with the naive move-to-front list.
   Prints "FAIL <line> <what>" per mismatch and a summary; exit 0 iff no mismatch. */
#include <stdio.h>
#include "decode.c"

void *xmalloc(size_t n) { void *p = malloc(n ? n : 1); if (!p) abort(); return p; }

int main(int argc, char **argv)
{
  static struct retriever_internal_state rs;
  long line = 0, fails = 0, calls = 0, rebuilds = 0;
  long n;
  if (argc > 1) {
    printf("%u %u %u %u\n", ROW_WIDTH, NUM_ROWS, SLIDE_LENGTH, CMAP_BASE);
    return 0;
  }
  while (scanf("%ld", &n) == 1) {
    uint8_t naive[256];
    unsigned i;
    long k;
    int bad = 0;
    line++;
    memset(rs.imtf_slide, 0xEE, sizeof rs.imtf_slide);
    for (i = 0; i < 256; i++) { rs.imtf_slide[CMAP_BASE + i] = (uint8_t)i; naive[i] = (uint8_t)i; }
    for (i = 0; i < NUM_ROWS; i++) rs.imtf_row[i] = rs.imtf_slide + CMAP_BASE + i * ROW_WIDTH;
    for (k = 0; k < n; k++) {
      int c, ret, off0;
      uint8_t got, nv;
      long prev0 = rs.imtf_row[0] - rs.imtf_slide;
      if (scanf("%d %d %d", &c, &ret, &off0) != 3) { printf("FAIL %ld malformed\n", line); return 2; }
      if (bad) continue;
      got = mtf_one(rs.imtf_row, rs.imtf_slide, (uint8_t)c);
      calls++;
      if (rs.imtf_row[0] - rs.imtf_slide > prev0) rebuilds++;
      nv = naive[c];
      memmove(naive + 1, naive, (size_t)c);
      naive[0] = nv;
      if (got != ret || nv != ret) {
        printf("FAIL %ld call %ld: mtf_one(%d) returned %u, spec %d, naive %u\n", line, k, c, got, ret, nv); bad = 1;
      } else if (rs.imtf_row[0] - rs.imtf_slide != off0) {
        printf("FAIL %ld call %ld: row 0 at offset %ld, spec %d\n", line, k, (long)(rs.imtf_row[0] - rs.imtf_slide), off0); bad = 1;
      }
      for (i = 0; i < NUM_ROWS && !bad; i++)
        if (rs.imtf_row[i] < rs.imtf_slide || rs.imtf_row[i] + ROW_WIDTH > rs.imtf_slide + SLIDE_LENGTH ||
            (i + 1 < NUM_ROWS && rs.imtf_row[i] + ROW_WIDTH > rs.imtf_row[i + 1])) {
          printf("FAIL %ld call %ld: row %u outside the pool or overlapping the next row\n", line, k, i); bad = 1;
        }
    }
    if (!bad)
      for (i = 0; i < 256; i++)
        if (rs.imtf_row[i / ROW_WIDTH][i % ROW_WIDTH] != naive[i]) {
          printf("FAIL %ld final: list position %u holds %u, naive %u\n", line, i, rs.imtf_row[i / ROW_WIDTH][i % ROW_WIDTH], naive[i]);
          bad = 1; break;
        }
    fails += bad;
  }
  printf("SUMMARY behaviours=%ld calls=%ld rebuilds=%ld fails=%ld\n", line, calls, rebuilds, fails);
  return fails ? 1 : 0;
}
