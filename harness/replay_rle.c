/* Replays behaviours of spec/Rle.tla through the real collect() of the working tree, with the
   block capacity given at run time (encoder_init(max_block_size = cap)).
   stdin, one behaviour per line:
     n i1..in  cap  k  (given used full st nblock) x k   m q1..qm
   After every call: return value, bytes consumed, nblock and rle_state are compared with the
   specification; at the end the block bytes (plus the pending count encode() would append) and
   the set of used byte values. */
#include <stdio.h>
#include "encode.c"

void *xmalloc(size_t n) { void *p = malloc(n ? n : 1); if (!p) abort(); return p; }
int32_t divbwt(uint8_t *T, int32_t *SA, int32_t *bucket, int32_t n) { (void)T; (void)SA; (void)bucket; (void)n; abort(); }

#define MAXN 4096
int main(void)
{
  long line = 0, fails = 0, calls_total = 0;
  int n;
  static int in[MAXN], qx[MAXN];
  static uint8_t buf[MAXN];
  while (scanf("%d", &n) == 1) {
    int cap, k, i, m, bad = 0;
    int given[16], used[16], full[16], st[16], nb[16];
    struct encoder_state *s;
    uint8_t *block;
    size_t pos = 0;
    line++;
    for (i = 0; i < n; i++) { scanf("%d", &in[i]); buf[i] = (uint8_t)in[i]; }
    scanf("%d %d", &cap, &k);
    for (i = 0; i < k; i++) scanf("%d %d %d %d %d", &given[i], &used[i], &full[i], &st[i], &nb[i]);
    scanf("%d", &m);
    for (i = 0; i < m; i++) scanf("%d", &qx[i]);
    s = xmalloc(encoder_alloc_size((unsigned long)cap));
    encoder_init(s, (unsigned long)cap, 1);
    block = (void *)(s->SA + s->max_block_size + GROUP_SIZE);
    for (i = 0; i < k && !bad; i++) {
      size_t sz = (size_t)given[i];
      int rv = collect(s, buf + pos, &sz);
      size_t cons = (size_t)given[i] - sz;
      int expst = st[i] == 1000 ? -1 : st[i];
      calls_total++;
      if (rv != full[i]) { printf("FAIL %ld call %d: returned %d, expected %d\n", line, i, rv, full[i]); bad = 1; }
      else if (cons != (size_t)used[i]) { printf("FAIL %ld call %d: consumed %zu of %d bytes, expected %d\n", line, i, cons, given[i], used[i]); bad = 1; }
      else if ((int)s->nblock != nb[i]) { printf("FAIL %ld call %d: nblock %u, expected %d\n", line, i, (unsigned)s->nblock, nb[i]); bad = 1; }
      else if (s->rle_state != expst) { printf("FAIL %ld call %d: rle_state %d, expected %d\n", line, i, s->rle_state, expst); bad = 1; }
      pos += cons;
    }
    if (!bad) {
      unsigned nblock = s->nblock;
      bool cmap[256];
      int want[256];
      memcpy(cmap, s->cmap, sizeof cmap);
      if (s->rle_state >= 4) {            /* what encode() does first */
        if (nblock >= (unsigned)cap) { printf("FAIL %ld: no room left for the pending run count\n", line); bad = 1; }
        else { block[nblock++] = (uint8_t)(s->rle_state - 4); cmap[s->rle_state - 4] = true; }
      }
      if (!bad && nblock != (unsigned)m) { printf("FAIL %ld: block has %u bytes, expected %d\n", line, nblock, m); bad = 1; }
      for (i = 0; !bad && i < m; i++)
        if (block[i] != (uint8_t)qx[i]) { printf("FAIL %ld: block byte %d is %d, expected %d\n", line, i, block[i], qx[i]); bad = 1; }
      memset(want, 0, sizeof want);
      for (i = 0; i < m; i++) want[qx[i]] = 1;
      for (i = 0; !bad && i < 256; i++)
        if ((int)cmap[i] != want[i]) { printf("FAIL %ld: cmap[%d] is %d, expected %d\n", line, i, (int)cmap[i], want[i]); bad = 1; }
    }
    fails += bad;
    free(s);
  }
  printf("SUMMARY behaviours=%ld calls=%ld fails=%ld\n", line, calls_total, fails);
  return fails ? 1 : 0;
}
