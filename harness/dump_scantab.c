/* Dumps the scanner tables of the working tree (src/scantab.h) as JSON for spec/Scan.tla. */
#include <stdio.h>
#include "scantab.h"
int main(void)
{
  int i, j;
  printf("{\"accept\":%d,\"mini\":[", (int)ACCEPT);
  for (i = 0; i < 48; i++) printf("%s[%d,%d]", i ? "," : "", mini_dfa[i][0], mini_dfa[i][1]);
  printf("],\"big\":[");
  for (i = 0; i < 49; i++) {
    printf("%s[", i ? "," : "");
    for (j = 0; j < 256; j++) printf("%s%d", j ? "," : "", big_dfa[i][j]);
    printf("]");
  }
  printf("]}\n");
  return 0;
}
