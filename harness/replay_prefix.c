/* Calls the working tree's assign_codes() (src/encode.c: package-merge, choice of the table height)
   on frequency vectors read from stdin (one per line: n f1..fn) and prints the code lengths it
   assigns: "L n l1..ln". */
#include <stdio.h>
#include "encode.c"

void *xmalloc(size_t n) { void *p = malloc(n ? n : 1); if (!p) abort(); return p; }
int32_t divbwt(uint8_t *T, int32_t *SA, int32_t *bucket, int32_t n) { (void)T; (void)SA; (void)bucket; (void)n; abort(); }

int main(void)
{
  int n;
  long line = 0;
  while (scanf("%d", &n) == 1) {
    uint32_t freq[MAX_ALPHA_SIZE + 1];
    uint8_t len[MAX_ALPHA_SIZE + 1];
    uint32_t code[MAX_ALPHA_SIZE + 1];
    int i;
    line++;
    for (i = 0; i < n; i++) { unsigned x; scanf("%u", &x); freq[i] = x; }
    memset(len, 0, sizeof len);
    (void)assign_codes(code, len, freq, (uint32_t)n);
    printf("L %d", n);
    for (i = 0; i < n; i++) printf(" %d", (int)len[i]);
    printf("\n");
  }
  printf("SUMMARY vectors=%ld\n", line);
  return 0;
}
