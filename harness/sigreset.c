/* sigreset [-i] [-b] [-f BYTES] prog args... : give the program under test a defined signal environment
   whatever the checker itself inherited (a shell running the check in the background passes SIGINT and
   SIGQUIT on as ignored, nohup SIGHUP, ...): every signal gets its default disposition and nothing is
   blocked.  -i: SIGPIPE and SIGXFSZ are ignored instead (the "inherited SIG_IGN" scenarios of C21).
   -b: SIGINT, SIGTERM, SIGUSR1 and SIGUSR2 are inherited BLOCKED (a parent that blocks them around fork/exec).
   -f BYTES: RLIMIT_FSIZE. */
#include <signal.h>
#include <stdio.h>
#include <stdlib.h>
#include <string.h>
#include <sys/resource.h>
#include <unistd.h>

int main(int argc, char **argv)
{
  int i = 1, ign = 0, blk = 0, s;
  sigset_t none;
  while (i < argc && argv[i][0] == '-') {
    if (strcmp(argv[i], "-i") == 0) { ign = 1; i++; }
    else if (strcmp(argv[i], "-b") == 0) { blk = 1; i++; }
    else if (strcmp(argv[i], "-f") == 0 && i + 1 < argc) {
      struct rlimit rl;
      rl.rlim_cur = rl.rlim_max = (rlim_t)strtoull(argv[i + 1], NULL, 10);
      if (setrlimit(RLIMIT_FSIZE, &rl) != 0) { perror("setrlimit"); return 127; }
      i += 2;
    }
    else break;
  }
  if (i >= argc) { fprintf(stderr, "usage: sigreset [-i] [-f BYTES] prog args...\n"); return 127; }
  for (s = 1; s < NSIG; s++)
    if (s != SIGKILL && s != SIGSTOP) signal(s, SIG_DFL);
  if (ign) { signal(SIGPIPE, SIG_IGN); signal(SIGXFSZ, SIG_IGN); }
  sigemptyset(&none);
  if (blk) { sigaddset(&none, SIGINT); sigaddset(&none, SIGTERM); sigaddset(&none, SIGUSR1); sigaddset(&none, SIGUSR2); }
  sigprocmask(SIG_SETMASK, &none, NULL);
  execv(argv[i], argv + i);
  perror(argv[i]);
  return 127;
}
