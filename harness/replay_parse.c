/* Replays stimuli of spec/Parser.tla through the real parse() of the working tree.
   stdin, one stimulus per line:
     nwords w1..wn(hex, 16-bit units; two per 32-bit word)  level0  nskips s1..sk  nbounds b1..bm
   The 32-bit words are handed to parse() in chunks that end at the word indices b1 < b2 < ... (and at the
   end of the input); exactly as expand.c does it, a chunk boundary makes parse() return MORE and it is
   re-entered with the next chunk, and after the last chunk it is re-entered once more with no data and
   eof set (when fewer than 32 bits are buffered).  After every OK the caller moves the bit stream
   forward by the block's payload length (the s_j).  Output per line:
     "R <line> OK:<crchi>:<crclo>:<level> ... FINISH:<garbage> | ERR:<code> | PAYLOAD_EOF | LOOP" */
#include <stdio.h>
#include "parse.c"

void *xmalloc(size_t n) { void *p = malloc(n ? n : 1); if (!p) abort(); return p; }

static uint32_t w[4096];
static int nw, bounds[4096], nb;

/* chunk [lo, hi) containing word index i (or the empty chunk at the end) */
static void chunk_of(int i, int *lo, int *hi)
{
  int k, a = 0;
  for (k = 0; k < nb; k++) {
    if (i < bounds[k]) { *lo = a; *hi = bounds[k]; return; }
    a = bounds[k];
  }
  *lo = a; *hi = nw;
}

/* position the bit stream at absolute bit p (p <= 32 * nw) */
static void seek_bits(struct bitstream *bs, long p)
{
  int wi = (int)(p / 32), r = (int)(p % 32), lo, hi;
  bs->live = 0; bs->buff = 0; bs->block = NULL;
  if (wi >= nw) { bs->data = bs->limit = NULL; bs->eof = true; return; }
  chunk_of(wi, &lo, &hi);
  bs->data = w + wi; bs->limit = w + hi; bs->eof = false;
  if (r != 0) { (void)bits_need(bs, 1); bits_dump(bs, (unsigned)r); }
}

static long tell_bits(const struct bitstream *bs)
{
  long consumed = bs->data ? (long)(bs->data - w) : nw;
  return 32 * consumed - (long)bs->live;
}

int main(void)
{
  long line = 0;
  int n16;
  while (scanf("%d", &n16) == 1) {
    int i, level0, nskips, skips[256], nok = 0, guard = 0, done = 0;
    struct bitstream bs;
    struct parser_state ps;
    line++;
    nw = n16 / 2;
    for (i = 0; i < nw; i++) { unsigned a, b; scanf("%x %x", &a, &b); w[i] = htonl((a << 16) | b); }
    scanf("%d %d", &level0, &nskips);
    for (i = 0; i < nskips; i++) scanf("%d", &skips[i]);
    scanf("%d", &nb);
    for (i = 0; i < nb; i++) scanf("%d", &bounds[i]);
    parser_init(&ps, level0, 0);
    seek_bits(&bs, 0);
    printf("R %ld", line);
    while (!done) {
      struct header hd;
      unsigned garbage = 9999;
      int rv = parse(&ps, &hd, &bs, &garbage);
      if (++guard > 100000) { printf(" LOOP"); break; }
      if (rv == MORE) {
        /* next chunk, keeping the buffered bits; after the last one: no data, eof */
        int at = bs.data ? (int)(bs.data - w) : nw, lo, hi;
        if (bs.eof) { printf(" MORE_AT_EOF"); break; }
        if (at >= nw) { bs.data = bs.limit = NULL; bs.eof = (bs.live < 32u); if (!bs.eof) { printf(" STUCK"); break; } }
        else { chunk_of(at, &lo, &hi); bs.data = w + at; bs.limit = w + hi; }
        continue;
      }
      if (rv == OK) {
        long p = tell_bits(&bs) + (nok < nskips ? skips[nok] : 0);
        printf(" OK:%u:%u:%d", (unsigned)(hd.crc >> 16), (unsigned)(hd.crc & 0xFFFFu), hd.bs100k);
        nok++;
        if (p > 32L * nw) { printf(" PAYLOAD_EOF"); break; }
        seek_bits(&bs, p);
        continue;
      }
      if (rv == FINISH) printf(" FINISH:%u", garbage);
      else printf(" ERR:%s", rv == ERR_HEADER ? "ERR_HEADER" : rv == ERR_STRMCRC ? "ERR_STRMCRC" : rv == ERR_EOF ? "ERR_EOF" : "OTHER");
      done = 1;
    }
    printf("\n");
  }
  printf("SUMMARY stimuli=%ld\n", line);
  return 0;
}
