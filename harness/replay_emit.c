/* Replays behaviours of spec/Emit.tla through the real emit() of the working tree.
   stdin, one behaviour per line:  n b1..bn  k c1..ck  status(0 ok,1 err)  m o1..om
   For every call the buffer is exactly as large as the spec says the call produces (so it runs
   full where the spec says it does); the last call is tried with slack 0 and slack 3.
   Prints "FAIL <line> <what>" per mismatch and a summary; exit 0 iff no mismatch. */
#include <stdio.h>
#include "decode.c"

void *xmalloc(size_t n) { void *p = malloc(n ? n : 1); if (!p) abort(); return p; }

#define MAXB 4096
static uint32_t tt[MAXB + 4];
static uint8_t outbuf[1 << 16];

static uint32_t ref_crc(const uint8_t *p, size_t n)
{
  uint32_t s = 0xFFFFFFFFu;
  while (n--) s = (s << 8) ^ crc_table[(s >> 24) ^ *p++];
  return s ^ 0xFFFFFFFFu;
}

int main(void)
{
  long line = 0, fails = 0, calls_total = 0;
  int n;
  while (scanf("%d", &n) == 1) {
    static int blk[MAXB], cl[MAXB], exp[1 << 16];
    int k, status, m, i, slack;
    line++;
    for (i = 0; i < n; i++) scanf("%d", &blk[i]);
    scanf("%d", &k);
    for (i = 0; i < k; i++) scanf("%d", &cl[i]);
    scanf("%d %d", &status, &m);
    for (i = 0; i < m; i++) scanf("%d", &exp[i]);
    for (slack = 0; slack <= 3; slack += 3) {
      struct decoder_state ds;
      size_t produced = 0;
      int bad = 0, rv = MORE;
      memset(&ds, 0, sizeof ds);
      for (i = 0; i < n; i++) tt[i] = ((uint32_t)(i + 1) << 8) + (uint32_t)blk[i];
      ds.tt = tt;
      ds.block_size = (unsigned)n;
      ds.rle_state = 0; ds.rle_crc = 0xFFFFFFFFu; ds.rle_index = 0; ds.rle_avail = (uint32_t)n;
      ds.rle_prev = 0; ds.rle_char = 0;
      for (i = 0; i < k && !bad; i++) {
        int last = (i == k - 1);
        size_t want = (size_t)cl[i] + (last ? (size_t)slack : 0);
        size_t sz = want;
        if (want == 0) {            /* empty block: emit() must not be called with an empty buffer */
          want = sz = 1;
        }
        rv = emit(&ds, outbuf + produced, &sz);
        calls_total++;
        if (!last) {
          if (rv != MORE || sz != 0) { printf("FAIL %ld call %d: expected MORE with a full buffer, got rv=%d left=%zu\n", line, i, rv, sz); bad = 1; }
          produced += want;
        } else {
          int exprv = status ? ERR_RUNLEN : OK;
          size_t got = want - sz;
          if (rv != exprv) { printf("FAIL %ld call %d: final status %d, expected %d\n", line, i, rv, exprv); bad = 1; }
          else if (rv == OK && got != (size_t)cl[i]) { printf("FAIL %ld call %d: produced %zu bytes, expected %d\n", line, i, got, cl[i]); bad = 1; }
          if (rv == OK) produced += got;
          else produced += (size_t)cl[i];
        }
      }
      if (!bad) {
        if (!status && produced != (size_t)m) { printf("FAIL %ld: %zu bytes written, expected %d\n", line, produced, m); bad = 1; }
        for (i = 0; !bad && i < m && (size_t)i < produced; i++)
          if (outbuf[i] != (uint8_t)exp[i]) { printf("FAIL %ld: byte %d is %d, expected %d\n", line, i, outbuf[i], exp[i]); bad = 1; }
        if (!bad && !status && ds.crc != ref_crc(outbuf, produced)) { printf("FAIL %ld: block CRC %08x, expected %08x\n", line, ds.crc, ref_crc(outbuf, produced)); bad = 1; }
      }
      fails += bad;
    }
  }
  printf("SUMMARY behaviours=%ld calls=%ld fails=%ld\n", line, calls_total, fails);
  return fails ? 1 : 0;
}
