/* LD_PRELOAD shim used by the /verif checks.
   VERIF_IO_SEED=<n>     read()/write() on fds 0/1 (and any regular-file fd named by
                         VERIF_IO_ALLFD=1) transfer a pseudo-random part (>= 1 byte) of what
                         was asked for: legal short reads / short writes.
   VERIF_IO_FAIL=<op>:<k>:<errno>[:<fdclass>]
                         the k-th (1-based) call of op (read|write|close) on the selected fds
                         fails with errno.  fdclass: std (fds 0/1, default) or any.
   Counting is global (all threads), which is what a "k-th call of the run" means. */
#define _GNU_SOURCE
#include <dlfcn.h>
#include <errno.h>
#include <stdlib.h>
#include <string.h>
#include <unistd.h>
#include <pthread.h>

static ssize_t (*real_read)(int, void *, size_t);
static ssize_t (*real_write)(int, const void *, size_t);
static pthread_mutex_t mu = PTHREAD_MUTEX_INITIALIZER;
static int inited;
static long seed = -1;
static unsigned long long rng;
static char fail_op[8];
static long fail_k = -1;
static int fail_errno;
static int fail_any;
static long n_read, n_write;

static void init(void)
{
  const char *p;
  if (inited) return;
  inited = 1;
  real_read = dlsym(RTLD_NEXT, "read");
  real_write = dlsym(RTLD_NEXT, "write");
  p = getenv("VERIF_IO_SEED");
  if (p && *p) { seed = atol(p); rng = 0x9E3779B97F4A7C15ull * (unsigned long long)(seed + 1) + 1; }
  p = getenv("VERIF_IO_FAIL");
  if (p && *p) {
    char buf[64]; char *a, *b, *c, *d;
    strncpy(buf, p, sizeof buf - 1); buf[sizeof buf - 1] = 0;
    a = strtok(buf, ":"); b = strtok(NULL, ":"); c = strtok(NULL, ":"); d = strtok(NULL, ":");
    if (a && b && c) { strncpy(fail_op, a, sizeof fail_op - 1); fail_k = atol(b); fail_errno = atoi(c); }
    if (d && strcmp(d, "any") == 0) fail_any = 1;
  }
}

static size_t part(size_t n)
{
  rng ^= rng << 13; rng ^= rng >> 7; rng ^= rng << 17;
  if (n <= 1) return n;
  switch ((rng >> 20) % 4) {
  case 0: return 1;
  case 1: return 1 + (size_t)((rng >> 24) % n);
  case 2: return n > 7 ? 1 + (size_t)((rng >> 24) % 7) : n;
  default: return n;
  }
}

ssize_t read(int fd, void *buf, size_t n)
{
  size_t m = n; int fail = 0;
  pthread_mutex_lock(&mu);
  init();
  if (fd == 0 || fail_any) {
    if (fd > 2 || fd == 0) {
      n_read++;
      if (fail_k > 0 && strcmp(fail_op, "read") == 0 && n_read == fail_k) fail = 1;
    }
  }
  if (fd == 0 && seed >= 0) m = part(n);
  pthread_mutex_unlock(&mu);
  if (fail) { errno = fail_errno; return -1; }
  return real_read(fd, buf, m);
}

ssize_t write(int fd, const void *buf, size_t n)
{
  size_t m = n; int fail = 0;
  pthread_mutex_lock(&mu);
  init();
  if (fd == 1 || (fail_any && fd > 2)) {
    n_write++;
    if (fail_k > 0 && strcmp(fail_op, "write") == 0 && n_write == fail_k) fail = 1;
  }
  if (fd == 1 && seed >= 0) m = part(n);
  pthread_mutex_unlock(&mu);
  if (fail) { errno = fail_errno; return -1; }
  return real_write(fd, buf, m);
}
