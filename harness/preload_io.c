/* LD_PRELOAD shim used by the /verif checks (fault and signal injection, short transfers).
   VERIF_IO_SEED=<n>     read()/write() on fds 0/1 transfer a pseudo-random part (>= 1 byte) of what
                         was asked for: legal short reads / short writes.
   VERIF_IO_LOG=<file>   append one line "<op> <fd|path>" per intercepted call (dry run: the driver
                         learns how many calls of each kind a run makes).
   VERIF_IO_FAIL=<op>:<k>:<errno>
                         the k-th (1-based) call of op fails with errno (the real call is not made).
                         As the kernel does, a write failing with EPIPE / EFBIG also generates SIGPIPE /
                         SIGXFSZ for the calling thread.
   VERIF_IO_SIG=<op>:<k>:<signo>[:after]
                         signal signo is sent to the process right before (or after) the k-th call of op.
   VERIF_IO_MARK=<file>  created when the VERIF_IO_FAIL / VERIF_IO_SIG injection point is reached.
   ops: read write close fchown fchmod futimens unlink open.  Counting is global over all threads
   ("the k-th call of the run").  read/write are counted for every fd except 2 (stderr) and the
   shim's own log. */
#define _GNU_SOURCE
#include <dlfcn.h>
#include <errno.h>
#include <fcntl.h>
#include <pthread.h>
#include <signal.h>
#include <stdarg.h>
#include <stdio.h>
#include <stdlib.h>
#include <string.h>
#include <sys/stat.h>
#include <sys/types.h>
#include <unistd.h>

enum { O_READ, O_WRITE, O_CLOSE, O_FCHOWN, O_FCHMOD, O_FUTIMENS, O_UNLINK, O_OPEN, O_MAX };
static const char *opname[O_MAX] = { "read", "write", "close", "fchown", "fchmod", "futimens", "unlink", "open" };

static ssize_t (*real_read)(int, void *, size_t);
static ssize_t (*real_write)(int, const void *, size_t);
static int (*real_close)(int);
static int (*real_fchown)(int, uid_t, gid_t);
static int (*real_fchmod)(int, mode_t);
static int (*real_futimens)(int, const struct timespec[2]);
static int (*real_unlink)(const char *);
static int (*real_open)(const char *, int, ...);

static pthread_mutex_t mu = PTHREAD_MUTEX_INITIALIZER;
static int inited, logfd = -1;
static long seed = -1;
static unsigned long long rng[2];      /* separate streams for reads and writes: each is deterministic */
static int fail_op = -1, fail_errno, sig_op = -1, sig_no, sig_after;
static long fail_k = -1, sig_k = -1;
static long count[O_MAX];

static int opindex(const char *s)
{
  int i;
  for (i = 0; i < O_MAX; i++) if (strcmp(s, opname[i]) == 0) return i;
  return -1;
}

static void init(void)
{
  const char *p;
  if (inited) return;
  inited = 1;
  real_read = dlsym(RTLD_NEXT, "read");
  real_write = dlsym(RTLD_NEXT, "write");
  real_close = dlsym(RTLD_NEXT, "close");
  real_fchown = dlsym(RTLD_NEXT, "fchown");
  real_fchmod = dlsym(RTLD_NEXT, "fchmod");
  real_futimens = dlsym(RTLD_NEXT, "futimens");
  real_unlink = dlsym(RTLD_NEXT, "unlink");
  real_open = dlsym(RTLD_NEXT, "open");
  p = getenv("VERIF_IO_SEED");
  if (p && *p) {
    seed = atol(p);
    rng[0] = 0x9E3779B97F4A7C15ull * (unsigned long long)(seed + 1) + 1;
    rng[1] = 0xD1B54A32D192ED03ull * (unsigned long long)(seed + 1) + 7;
  }
  p = getenv("VERIF_IO_LOG");
  if (p && *p) logfd = real_open(p, O_WRONLY | O_CREAT | O_APPEND | O_CLOEXEC, 0666);
  p = getenv("VERIF_IO_FAIL");
  if (p && *p) {
    char buf[64]; char *a, *b, *c;
    strncpy(buf, p, sizeof buf - 1); buf[sizeof buf - 1] = 0;
    a = strtok(buf, ":"); b = strtok(NULL, ":"); c = strtok(NULL, ":");
    if (a && b && c) { fail_op = opindex(a); fail_k = atol(b); fail_errno = atoi(c); }
  }
  p = getenv("VERIF_IO_SIG");
  if (p && *p) {
    char buf[64]; char *a, *b, *c, *d;
    strncpy(buf, p, sizeof buf - 1); buf[sizeof buf - 1] = 0;
    a = strtok(buf, ":"); b = strtok(NULL, ":"); c = strtok(NULL, ":"); d = strtok(NULL, ":");
    if (a && b && c) { sig_op = opindex(a); sig_k = atol(b); sig_no = atoi(c); sig_after = d && strcmp(d, "after") == 0; }
  }
}

static void mark(void)
{
  const char *m = getenv("VERIF_IO_MARK");
  if (m && *m) { int fd = real_open(m, O_WRONLY | O_CREAT | O_CLOEXEC, 0666); if (fd >= 0) real_close(fd); }
}

/* the signal of an ":after" injection: marked when it is really sent (the process may have ended meanwhile) */
static void after_signal(void)
{
  mark();
  kill(getpid(), sig_no);
}

/* returns: bit 0 = fail this call, bit 1 = signal before, bit 2 = signal after */
static int enter(int op, int fd, const char *path)
{
  int r = 0;
  pthread_mutex_lock(&mu);
  init();
  count[op]++;
  if (logfd >= 0) {
    char line[300];
    int n = path ? snprintf(line, sizeof line, "%s %s\n", opname[op], path) : snprintf(line, sizeof line, "%s %d\n", opname[op], fd);
    if (n > 0) (void)real_write(logfd, line, (size_t)n);
  }
  if (op == fail_op && count[op] == fail_k) r |= 1;
  if (op == sig_op && count[op] == sig_k) r |= sig_after ? 4 : 2;
  if (r & 3) mark();
  pthread_mutex_unlock(&mu);
  if (r & 2) kill(getpid(), sig_no);
  return r;
}

static size_t part(size_t n, int w)
{
  size_t m;
  unsigned long long x;
  pthread_mutex_lock(&mu);
  x = rng[w];
  x ^= x << 13; x ^= x >> 7; x ^= x << 17;
  rng[w] = x;
  if (n <= 1) m = n;
  else switch ((x >> 20) % 4) {
    case 0: m = 1; break;
    case 1: m = 1 + (size_t)((x >> 24) % n); break;
    case 2: m = n > 7 ? 1 + (size_t)((x >> 24) % 7) : n; break;
    default: m = n;
  }
  pthread_mutex_unlock(&mu);
  return m;
}

ssize_t read(int fd, void *buf, size_t n)
{
  int r;
  ssize_t rv;
  pthread_mutex_lock(&mu); init(); pthread_mutex_unlock(&mu);
  if (fd == 2 || fd == logfd) return real_read(fd, buf, n);
  r = enter(O_READ, fd, NULL);
  if (r & 1) { errno = fail_errno; return -1; }
  rv = real_read(fd, buf, (fd == 0 && seed >= 0) ? part(n, 0) : n);
  if (r & 4) after_signal();
  return rv;
}

ssize_t write(int fd, const void *buf, size_t n)
{
  int r;
  ssize_t rv;
  pthread_mutex_lock(&mu); init(); pthread_mutex_unlock(&mu);
  if (fd == 2 || fd == logfd) return real_write(fd, buf, n);
  /* the hook layer's trace file is not part of the program's I/O */
  if (fd > 2 && getenv("VERIF_TRACE") != NULL) {
    char lk[64], tgt[512];
    ssize_t k;
    snprintf(lk, sizeof lk, "/proc/self/fd/%d", fd);
    k = readlink(lk, tgt, sizeof tgt - 1);
    if (k > 0) { tgt[k] = 0; if (strcmp(tgt, getenv("VERIF_TRACE")) == 0) return real_write(fd, buf, n); }
  }
  r = enter(O_WRITE, fd, NULL);
  if (r & 1) {
    if (fail_errno == EPIPE) pthread_kill(pthread_self(), SIGPIPE);
    if (fail_errno == EFBIG) pthread_kill(pthread_self(), SIGXFSZ);
    errno = fail_errno;
    return -1;
  }
  rv = real_write(fd, buf, (fd == 1 && seed >= 0) ? part(n, 1) : n);
  if (r & 4) after_signal();
  return rv;
}

int close(int fd)
{
  int r, rv;
  pthread_mutex_lock(&mu); init(); pthread_mutex_unlock(&mu);
  if (fd == logfd) return 0;
  r = enter(O_CLOSE, fd, NULL);
  if (r & 1) { (void)real_close(fd); errno = fail_errno; return -1; }   /* like a deferred write error: the descriptor is gone */
  rv = real_close(fd);
  if (r & 4) after_signal();
  return rv;
}

int fchown(int fd, uid_t u, gid_t g)
{
  int r = enter(O_FCHOWN, fd, NULL), rv;
  if (r & 1) { errno = fail_errno; return -1; }
  rv = real_fchown(fd, u, g);
  if (r & 4) after_signal();
  return rv;
}

int fchmod(int fd, mode_t m)
{
  int r = enter(O_FCHMOD, fd, NULL), rv;
  if (r & 1) { errno = fail_errno; return -1; }
  rv = real_fchmod(fd, m);
  if (r & 4) after_signal();
  return rv;
}

int futimens(int fd, const struct timespec ts[2])
{
  int r = enter(O_FUTIMENS, fd, NULL), rv;
  if (r & 1) { errno = fail_errno; return -1; }
  rv = real_futimens(fd, ts);
  if (r & 4) after_signal();
  return rv;
}

int unlink(const char *path)
{
  int r = enter(O_UNLINK, -1, path), rv;
  if (r & 1) { errno = fail_errno; return -1; }
  rv = real_unlink(path);
  if (r & 4) after_signal();
  return rv;
}

int open(const char *path, int flags, ...)
{
  int r, rv;
  mode_t mode = 0;
  if (flags & O_CREAT) { va_list ap; va_start(ap, flags); mode = (mode_t)va_arg(ap, int); va_end(ap); }
  pthread_mutex_lock(&mu); init(); pthread_mutex_unlock(&mu);
  if (strncmp(path, "/proc/", 6) == 0) return real_open(path, flags, mode);
  /* the hook layer's trace file is not part of the program's I/O */
  if (getenv("VERIF_TRACE") != NULL && strcmp(path, getenv("VERIF_TRACE")) == 0) return real_open(path, flags, mode);
  r = enter(O_OPEN, -1, path);
  if (r & 1) { errno = fail_errno; return -1; }
  rv = real_open(path, flags, mode);
  if (r & 4) after_signal();
  return rv;
}
int open64(const char *path, int flags, ...)
{
  mode_t mode = 0;
  if (flags & O_CREAT) { va_list ap; va_start(ap, flags); mode = (mode_t)va_arg(ap, int); va_end(ap); }
  return open(path, flags, mode);
}
