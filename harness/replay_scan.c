/* Replays stimuli of spec/Scan.tla through the real scan() of the working tree.
   stdin, one stimulus per line:  nwords w1..wn(hex)  start  preload  skip
   The bit stream is positioned at bit `start` (with `preload` = 1 one more word is already
   buffered, giving live >= 32); scan(bs, skip) is called once with the skip and then with
   skip 0 until it returns MORE.  Output per line: "R <line> e1 e2 ..." = absolute bit positions
   right after each reported candidate (end of the 32 bits that follow the pattern). */
#include <stdio.h>
#include "parse.c"

void *xmalloc(size_t n) { void *p = malloc(n ? n : 1); if (!p) abort(); return p; }

int main(void)
{
  int n;
  long line = 0;
  static uint32_t w[256];
  while (scanf("%d", &n) == 1) {
    int i, start, preload, skip, first = 1, guard = 0;
    struct bitstream bs;
    line++;
    for (i = 0; i < n; i++) { unsigned x; scanf("%x", &x); w[i] = htonl(x); }
    scanf("%d %d %d", &start, &preload, &skip);
    memset(&bs, 0, sizeof bs);
    bs.limit = w + n;
    bs.eof = false;
    {
      int wi = start / 32, r = start % 32;
      bs.data = w + wi;
      bs.live = 0; bs.buff = 0;
      if (r != 0 || preload) {
        (void)bits_need(&bs, 1);            /* load the word that contains `start' */
        bits_dump(&bs, (unsigned)r);
        if (preload && bs.data < bs.limit) {
          bs.buff |= (uint64_t)ntohl(*bs.data) << (32u - bs.live);
          bs.data++;
          bs.live += 32u;
        }
      }
    }
    printf("R %ld", line);
    for (;;) {
      int rv = scan(&bs, first ? (unsigned)skip : 0u);
      first = 0;
      if (rv != OK) break;
      printf(" %ld", (long)(32 * (bs.data - w)) - (long)bs.live);
      if (++guard > 64) { printf(" LOOP"); break; }
    }
    printf("\n");
  }
  printf("SUMMARY stimuli=%ld\n", line);
  return 0;
}
