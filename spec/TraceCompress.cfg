SPECIFICATION Spec
CONSTANTS Strict = TRUE
 MaxTid = 40
INVARIANTS TraceInv NotAccepted
CHECK_DEADLOCK FALSE
