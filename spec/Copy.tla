-------------------------------- MODULE Copy --------------------------------
(***************************************************************************)
(* The pass-through pipeline of `lbzip2 -cdf` for input that is not bzip2  *)
(* data (process.c: copy(), copy_on_input_avail, copy_on_write_complete,   *)
(* copy_terminate): the reader hands every buffer straight to the writer,  *)
(* two input and two output slots bound what is in flight, and the main    *)
(* thread is released by SIGUSR2 - raised by whichever thread leaves the   *)
(* scheduler monitor in a state with eof set and all output slots free.    *)
(* Data layer (one operator per critical section) + model-checking layer   *)
(* (MCCopy) + trace binding (TraceCopy), as for Compress / Expand.         *)
(***************************************************************************)
EXTENDS Integers, Sequences, TLC

VARIABLES inSlots, outSlots, eof, srcBuf, sinkQ, acks, written, nread, usr2, relpend
cvars == <<inSlots, outSlots, eof, srcBuf, sinkQ, acks, written, nread, usr2, relpend>>
TotIn == 2
TotOut == 2

CInit == /\ inSlots = TotIn /\ outSlots = TotOut /\ eof = FALSE /\ srcBuf = 0 /\ sinkQ = <<>> /\ acks = 0
         /\ written = <<>> /\ nread = 0 /\ usr2 = 0 /\ relpend = 0
\* leaving the scheduler monitor: copy_terminate() raises SIGUSR2 when everything is written
Leave(e, os) == IF e /\ os = TotOut THEN usr2' = usr2 + 1 ELSE usr2' = usr2

CSrcTake == /\ inSlots > 0 /\ srcBuf = 0 /\ ~eof
            /\ inSlots' = inSlots - 1 /\ srcBuf' = 1
            /\ UNCHANGED <<outSlots, eof, sinkQ, acks, written, nread, usr2, relpend>>
\* a read that returned data: copy_on_input_avail (monitor), then sink_write_buffer.
\* The code decrements out_slots unconditionally.  The writer gives the input slot back (CRelease)
\* before the output slot (CWritten), so the reader can get here with out_slots = 0: the unsigned
\* counter wraps for a moment (modelled as -1) and is incremented again by the pending CWritten.
\* Nothing but copy_terminate() reads it, and the queue itself never holds more than two buffers.
CAvail == /\ srcBuf = 1
          /\ outSlots' = outSlots - 1 /\ srcBuf' = 0 /\ nread' = nread + 1
          /\ sinkQ' = Append(sinkQ, nread + 1)
          /\ Leave(eof, outSlots')
          /\ UNCHANGED <<inSlots, eof, acks, written, relpend>>
\* a read that returned nothing
CSrcEmpty == /\ srcBuf = 1 /\ inSlots' = inSlots + 1 /\ srcBuf' = 0
             /\ UNCHANGED <<outSlots, eof, sinkQ, acks, written, nread, usr2, relpend>>
CEof == /\ srcBuf = 0 /\ ~eof /\ eof' = TRUE /\ Leave(TRUE, outSlots)
        /\ UNCHANGED <<inSlots, outSlots, srcBuf, sinkQ, acks, written, nread, relpend>>
CSinkPop == /\ sinkQ # <<>> /\ acks = 0
            /\ written' = Append(written, Head(sinkQ)) /\ sinkQ' = Tail(sinkQ) /\ acks' = 1
            /\ UNCHANGED <<inSlots, outSlots, eof, srcBuf, nread, usr2, relpend>>
\* copy_on_write_complete: source_release_buffer (source monitor) ...
CRelease == /\ acks = 1 /\ relpend = 0 /\ inSlots' = inSlots + 1 /\ relpend' = 1
            /\ UNCHANGED <<outSlots, eof, srcBuf, sinkQ, acks, written, nread, usr2>>
\* ... then out_slots++ (scheduler monitor)
CWritten == /\ acks = 1 /\ relpend = 1
            /\ outSlots' = outSlots + 1 /\ acks' = 0 /\ relpend' = 0 /\ Leave(eof, outSlots')
            /\ UNCHANGED <<inSlots, eof, srcBuf, sinkQ, written, nread>>

CBounds == inSlots \in 0..TotIn /\ outSlots \in -1..TotOut /\ Len(sinkQ) <= TotOut
CConserve == /\ outSlots + Len(sinkQ) + acks = TotOut
             /\ inSlots + srcBuf + Len(sinkQ) + acks - relpend = TotIn
\* buffers reach the writer in the order they were read, each exactly once
COrdered == LET out == written \o sinkQ IN \A i \in 1..Len(out) : out[i] = i
\* SIGUSR2 only when everything read has been written, and at most once
CSignal == /\ usr2 <= 1
           /\ (usr2 = 1 => eof /\ Len(written) = nread /\ outSlots = TotOut)
CDataInv == CBounds /\ CConserve /\ COrdered /\ CSignal
=============================================================================
