-------------------------------- MODULE Locks --------------------------------
(***************************************************************************)
(* The locking protocol of lbzip2 (process.c, compress.c, expand.c): which *)
(* thread touches which shared variable holding which monitor.             *)
(*                                                                         *)
(* Every thread is a small program over the instructions acq / rel (of     *)
(* sched_mutex, source_mutex, sink_mutex; a condition wait is rel followed *)
(* by acq), ev (a hooked transition of the code: its name and the shared   *)
(* variables it reads and writes), fork / join, and goto with several      *)
(* targets (control flow that depends on data is left open: every order of *)
(* critical sections the code can produce is included).  The programs      *)
(* follow the critical sections of the code one to one:                    *)
(*   reader   source_thread_proc + on_input_avail / copy_on_input_avail    *)
(*   writer   sink_thread_proc + on_write_complete / copy_on_write_complete*)
(*   worker   worker_thread_proc, the tasks' sched_lock()/sched_unlock()   *)
(*            pairs, sink_write_buffer / source_release_buffer /           *)
(*            source_close called inside or outside the scheduler monitor  *)
(*   primary  init, init_io, worker, joins, uninit_io, uninit              *)
(*   main     copy(): the same without workers                             *)
(*                                                                         *)
(* TLC explores all interleavings and checks                               *)
(*   RaceFree   no two threads are ever simultaneously at accesses of the  *)
(*              same variable of which one is a write (the definition of a *)
(*              data race; accesses before the threads exist or after they *)
(*              are joined are safe for that reason, not by annotation)    *)
(*   Guarded    outside those single-threaded phases every access holds    *)
(*              the variable's monitor, except the documented read of      *)
(*              tail_offs by its only writer                               *)
(*   LockOrder  source_mutex / sink_mutex are only ever taken inside       *)
(*              sched_mutex or alone, never the other way round            *)
(* and absence of deadlock.  Signature is the set of (role, event, locks   *)
(* held) triples of the model; spec/TraceLocks.tla accepts a recorded      *)
(* trace only if every event of it carries one of these triples.           *)
(***************************************************************************)
EXTENDS Naturals, Sequences, FiniteSets, TLC, Json

CONSTANTS Mode       \* "compress" | "expand" | "copy"

Locks == {"sched", "source", "sink"}
SchedVars == {"eof", "wu", "os", "ts", "tail"}
SourceVars == {"is", "rc"}
SinkVars == {"oq", "fin"}
AllVars == SchedVars \cup SourceVars \cup SinkVars
Guard(v) == IF v \in SchedVars THEN "sched" ELSE IF v \in SourceVars THEN "source" ELSE "sink"

I(lbl, op, a, r, w, to) == [lbl |-> lbl, op |-> op, a |-> a, r |-> r, w |-> w, to |-> to]
Acq(l) == I("", "acq", {l}, {}, {}, {})
Rel(l) == I("", "rel", {l}, {}, {}, {})
Ev(names, r, w) == I("", "ev", names, r, w, {})
Go(targets) == I("", "goto", {}, {}, {}, targets)
Lbl(l) == I(l, "nop", {}, {}, {}, {})
Fork(ts) == I("", "fork", ts, {}, {}, {})
Join(t) == I("", "join", {t}, {}, {}, {})
End == I("", "end", {}, {}, {}, {})

SchedEvents == IF Mode = "compress"
               THEN {"CollectBegin", "CollectRequeue", "CollectEnd", "SeqBegin", "SeqRequeue", "SeqPark", "SeqToken",
                     "SeqEnd", "TransmitBegin", "TransmitEnd", "Reorder"}
               ELSE {"ParseBegin", "ParseMore", "ParseFinish", "ParseErr", "ParseBlock", "RetrBegin", "RetrEnd",
                     "RetrPush", "EmitBegin", "EmitEnd", "Reorder", "ScanBegin", "ScanEnd"}

\* ------------------------------------------------------------------ programs
SrcRelease == <<Acq("source"), Ev({"SrcRel"}, {"is"}, {"is"}), Rel("source")>>
\* sched_unlock() evaluates process->finished(); in copy mode that is copy_terminate(), which reads eof and
\* out_slots and raises SIGUSR2 (event CopyTerm) - from whichever thread leaves the monitor
CopyUnlock(a, b) == <<Go({a, b}), Lbl(a), Ev({"CopyTerm"}, {"eof", "os"}, {}), Lbl(b), Rel("sched")>>

Reader ==
  <<Lbl("top"), Acq("source"),
    Lbl("chk"), Go({"take", "cwait", "stop"}),
    Lbl("cwait"), Rel("source"), Acq("source"), Go({"chk"}),                \* xwait(&source_cond, &source_mutex)
    Lbl("stop"), Ev({"SrcStop"}, {"rc", "is"}, {}), Rel("source"), Go({"fin"}),
    Lbl("take"), Ev({"SrcTake"}, {"is", "rc"}, {"is"}), Rel("source")>>
  \o (IF Mode = "expand" THEN <<Ev({"(read tail_offs)"}, {"tail"}, {})>> ELSE <<>>)   \* expand.c on_input_avail, before sched_lock()
  \o <<Go({"empty", "blk"}),
    Lbl("empty")>> \o SrcRelease \o <<Go({"fin"}),                            \* read() returned nothing
    Lbl("blk"), Acq("sched")>>
  \o (IF Mode = "copy"
      THEN <<Ev({"CopyAvail"}, {"os"}, {"os"})>> \o CopyUnlock("t1", "n1") \o
           <<Acq("sink"), Ev({"SinkPush"}, {"oq"}, {"oq"}), Rel("sink"), Go({"top", "fin"})>>
      ELSE <<Go({"avail", "drop"}),
             Lbl("avail"), Ev({"Avail"}, {"ts", "tail", "os", "wu", "eof"}, {"ts", "tail"}), Rel("sched"), Go({"top", "fin"}),
             Lbl("drop"), Ev({"AvailDrop"}, {"ts", "os", "wu", "eof"}, {}), Rel("sched")>> \o SrcRelease \o <<Go({"top", "fin"})>>)
  \o <<Lbl("fin"), Acq("sched"), Ev({"Eof"}, {}, {"eof"})>>
  \o (IF Mode = "copy" THEN CopyUnlock("t2", "n2") ELSE <<Rel("sched")>>) \o <<End>>

Writer ==
  <<Lbl("top"), Acq("sink"),
    Lbl("chk"), Go({"pop", "cwait", "exit"}),
    Lbl("cwait"), Rel("sink"), Acq("sink"), Go({"chk"}),                     \* xwait(&sink_cond, &sink_mutex)
    Lbl("exit"), Ev({"SinkExit"}, {"oq", "fin"}, {}), Rel("sink"), End,
    Lbl("pop"), Ev({"SinkPop"}, {"oq", "fin"}, {"oq"}), Rel("sink")>>
  \o (IF Mode = "copy"
      THEN SrcRelease \o <<Acq("sched"), Ev({"CopyWritten"}, {"os"}, {"os"})>> \o CopyUnlock("t3", "n3") \o <<Go({"top"})>>
      ELSE <<Acq("sched"), Ev({"Written"}, {"os", "ts", "wu", "eof"}, {"os", "ts"}), Rel("sched"), Go({"top"})>>)

WorkerBody ==
  <<Acq("sched"), Ev({"WStart"}, {}, {}),
    Lbl("loop"), Go({"task", "push", "leave", "wait", "exit"} \cup (IF Mode = "expand" THEN {"rel", "close"} ELSE {})),
    Lbl("task"), Ev(SchedEvents, {"ts", "wu", "os", "eof", "tail"}, {"ts", "wu", "os"}), Go({"loop"}),
    Lbl("push"), Acq("sink"), Ev({"SinkPush"}, {"oq"}, {"oq"}), Rel("sink"), Go({"loop"}),      \* do_reorder -> sink_write_buffer
    Lbl("rel")>> \o SrcRelease \o <<Go({"loop"}),                                              \* expand: advance()/detach() release input
    Lbl("close"), Acq("source"), Ev({"SrcClose"}, {"is"}, {"rc"}), Rel("source"), Go({"loop"}), \* expand: source_close()
    Lbl("leave"), Rel("sched"), Go({"compute"} \cup (IF Mode = "compress" THEN {"crel"} ELSE {})),
    Lbl("crel")>> \o SrcRelease \o                                                             \* compress: collect releases input outside the monitor
  <<Lbl("compute"), Acq("sched"), Go({"loop"}),
    Lbl("wait"), Ev({"WWait"}, {"ts"}, {}), Rel("sched"), Acq("sched"), Ev({"WWake"}, {"ts"}, {}), Go({"loop"}),
    Lbl("exit"), Ev({"WExit"}, {"ts", "eof", "wu", "os"}, {}), Rel("sched")>>

Worker == WorkerBody \o <<End>>

Primary ==
  <<Ev({"Init", "InitX"}, {}, AllVars), Fork({"wr", "rd"}), Fork({"w2"})>>
  \o WorkerBody
  \o <<Join("w2"), Join("rd"), Acq("sink"), Ev({"SinkFinish"}, {"oq"}, {"fin"}), Rel("sink"), Join("wr"),
       Ev({"Fini", "Uninit"}, AllVars, {}), End>>

Main == IF Mode = "copy"
        THEN <<Ev({"Start"}, {}, {}), Ev({"CopyInit"}, {}, AllVars), Fork({"wr", "rd"}),
               Join("rd"), Acq("sink"), Ev({"SinkFinish"}, {"oq"}, {"fin"}), Rel("sink"), Join("wr"),
               Ev({"CopyUninit"}, AllVars, {}), End>>
        ELSE <<Ev({"Start"}, {}, {}), Fork({"prim"}), Join("prim"), End>>

Threads == IF Mode = "copy" THEN {"main", "rd", "wr"} ELSE {"main", "prim", "w2", "rd", "wr"}
Prog(t) == CASE t = "main" -> Main [] t = "prim" -> Primary [] t = "w2" -> Worker [] t = "rd" -> Reader [] t = "wr" -> Writer
Role(t) == CASE t = "main" -> "main" [] t \in {"prim", "w2"} -> "worker" [] t = "rd" -> "reader" [] t = "wr" -> "writer"
Idx(t, l) == CHOOSE i \in 1..Len(Prog(t)) : Prog(t)[i].lbl = l

\* ------------------------------------------------------------------ interpreter
VARIABLES pc,      \* pc[t]: index of the next instruction, 0 = not created yet
          held     \* held[t]: sequence of locks in acquisition order
vars == <<pc, held>>

Init == /\ pc = [t \in Threads |-> IF t = "main" THEN 1 ELSE 0]
        /\ held = [t \in Threads |-> <<>>]

Cur(t) == Prog(t)[pc[t]]
Running(t) == pc[t] > 0 /\ Cur(t).op # "end"
Owner(l) == {t \in Threads : \E i \in 1..Len(held[t]) : held[t][i] = l}
HeldSet(t) == {held[t][i] : i \in 1..Len(held[t])}
TheOne(S) == CHOOSE x \in S : TRUE

Step(t) ==
  /\ Running(t)
  /\ LET ins == Cur(t) IN
     CASE ins.op = "acq" -> /\ Owner(TheOne(ins.a)) = {}
                            /\ held' = [held EXCEPT ![t] = Append(@, TheOne(ins.a))]
                            /\ pc' = [pc EXCEPT ![t] = @ + 1]
       [] ins.op = "rel" -> /\ held' = [held EXCEPT ![t] = SelectSeq(@, LAMBDA l : l # TheOne(ins.a))]
                            /\ pc' = [pc EXCEPT ![t] = @ + 1]
       [] ins.op \in {"ev", "nop"} -> pc' = [pc EXCEPT ![t] = @ + 1] /\ UNCHANGED held
       [] ins.op = "goto" -> \E l \in ins.to : pc' = [pc EXCEPT ![t] = Idx(t, l)] /\ UNCHANGED held
       [] ins.op = "fork" -> /\ pc' = [u \in Threads |-> IF u \in ins.a THEN 1 ELSE IF u = t THEN pc[t] + 1 ELSE pc[u]]
                             /\ UNCHANGED held
       [] ins.op = "join" -> /\ pc[TheOne(ins.a)] > 0 /\ Prog(TheOne(ins.a))[pc[TheOne(ins.a)]].op = "end"
                             /\ pc' = [pc EXCEPT ![t] = @ + 1] /\ UNCHANGED held

Next == \E t \in Threads : Step(t)
Spec == Init /\ [][Next]_vars
Finished == \A t \in Threads : pc[t] > 0 /\ Cur(t).op = "end"
\* (TLC's deadlock check is on; the final state stutters)
Done == Finished /\ UNCHANGED vars
SpecD == Init /\ [][Next \/ Done]_vars

\* ------------------------------------------------------------------ properties
AtEv(t) == Running(t) /\ Cur(t).op = "ev"
Conflict(t, u) == LET a == Cur(t) b == Cur(u) IN
                  (a.w \cap (b.r \cup b.w)) \cup (b.w \cap (a.r \cup a.w)) # {}
RaceFree == \A t, u \in Threads : (t # u /\ AtEv(t) /\ AtEv(u)) => ~Conflict(t, u)

\* some other thread that touches shared state is alive
Concurrent(t) == \E u \in Threads \ {t, "main"} : pc[u] > 0 /\ Prog(u)[pc[u]].op # "end"
Exempt(t, ins, v) == Role(t) = "reader" /\ v = "tail" /\ v \notin ins.w       \* single-writer unlocked read (expand.c)
Guarded == \A t \in Threads : (AtEv(t) /\ (Concurrent(t) \/ (t = "main" /\ \E u \in Threads \ {"main"} : Running(u)))) =>
              \A v \in Cur(t).r \cup Cur(t).w : Guard(v) \in HeldSet(t) \/ Exempt(t, Cur(t), v)

LockOrder == \A t \in Threads :
               held[t] \in {<<>>, <<"sched">>, <<"source">>, <<"sink">>, <<"sched", "source">>, <<"sched", "sink">>}
MutualExclusion == \A l \in Locks : Cardinality(Owner(l)) <= 1
EndsClean == Finished => \A t \in Threads : held[t] = <<>>

MonBits(t) == (IF "sched" \in HeldSet(t) THEN 1 ELSE 0) + (IF "source" \in HeldSet(t) THEN 2 ELSE 0)
              + (IF "sink" \in HeldSet(t) THEN 4 ELSE 0)
SigNow == UNION {{<<Role(t), e, MonBits(t)>> : e \in Cur(t).a} : t \in {u \in Threads : AtEv(u)}}
\* prints every new (role, event, locks) triple once (needs -workers 1)
Export == LET seen == TLCGet(1) new == SigNow \ seen IN
          IF new = {} THEN TRUE
          ELSE /\ TLCSet(1, seen \cup new)
               /\ \A s \in new : PrintT(<<"BEHAVIOUR", ToJson([role |-> s[1], e |-> s[2], mon |-> s[3]])>>)
ASSUME TLCSet(1, {})
=============================================================================
