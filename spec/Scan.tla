-------------------------------- MODULE Scan --------------------------------
(***************************************************************************)
(* The block-header scanner of src/parse.c / src/scantab.h.                *)
(*                                                                         *)
(* Part 1 (tables).  The two automaton tables of the working tree are read *)
(* from JSON (harness/dump_scantab.c) and every entry is compared with the *)
(* definition of the Knuth-Morris-Pratt automaton of the 48-bit pattern    *)
(* 0x314159265359: state = length of the longest prefix of the pattern     *)
(* that is a suffix of the bits read.  This is the inductive step of the   *)
(* automaton's invariant, so it covers every input, not a sample.          *)
(*                                                                         *)
(* Part 2 (routine).  Stimuli for scan(): bit streams with the pattern     *)
(* planted at every offset, near misses, two occurrences, patterns cut by  *)
(* the end of the block, every starting bit offset and several skip        *)
(* distances - each with the occurrences that lie wholly inside the block  *)
(* computed straight from the definition.  They are printed for replay     *)
(* through the real scan().                                                *)
(***************************************************************************)
EXTENDS Naturals, Sequences, FiniteSets, TLC, Json, IOUtils

CONSTANTS NWords,      \* set of block lengths in 32-bit words
          Fillers,     \* subset of {0, 1, 2}: all zeros, all ones, alternating
          Offsets,     \* bit offsets at which a pattern may be planted
          MaxPlants,   \* 1 or 2 plants per stimulus
          Starts,      \* starting bit positions
          Skips,       \* skip arguments
          Misses       \* prefix lengths of near misses (pattern prefix followed by a wrong bit)

Tab == JsonDeserialize(IOEnv.SCANTAB)

\* 0x314159265359, most significant bit first
Hex == <<3, 1, 4, 1, 5, 9, 2, 6, 5, 3, 5, 9>>
NibbleBit(v, k) == (v \div (IF k = 1 THEN 8 ELSE IF k = 2 THEN 4 ELSE IF k = 3 THEN 2 ELSE 1)) % 2
Pat == [i \in 1..48 |-> NibbleBit(Hex[((i - 1) \div 4) + 1], ((i - 1) % 4) + 1)]
ACCEPT == 48

---------------------------------------------------------------------------
(* Part 1: the automaton by definition.                                    *)
\* is Pat[1..k] a suffix of (Pat[1..s] followed by bit b)?
Border(s, b, k) == IF k = 0 THEN TRUE
                   ELSE /\ Pat[k] = b
                        /\ \A j \in 1..(k - 1) : Pat[j] = Pat[s - (k - 1) + j]
Kmp(s, b) == LET S == {k \in 0..(s + 1) : k <= 48 /\ Border(s, b, k)}
             IN CHOOSE k \in S : \A m \in S : m <= k
KmpT == [s \in 0..47 |-> [b \in {0, 1} |-> Kmp(s, b)]]     \* evaluated once
MiniOK == /\ Tab.accept = ACCEPT
          /\ \A s \in 0..47 : \A b \in {0, 1} : Tab.mini[s + 1][b + 1] = KmpT[s][b]
\* a byte is eight steps, most significant bit first; ACCEPT is absorbing within the byte
ByteBit(x, k) == (x \div (CASE k = 1 -> 128 [] k = 2 -> 64 [] k = 3 -> 32 [] k = 4 -> 16
                            [] k = 5 -> 8 [] k = 6 -> 4 [] k = 7 -> 2 [] OTHER -> 1)) % 2
RECURSIVE Walk(_, _, _)
Walk(s, x, k) == IF k > 8 THEN s
                 ELSE IF s = ACCEPT THEN ACCEPT
                 ELSE Walk(KmpT[s][ByteBit(x, k)], x, k + 1)
BigOK == \A s \in 0..48 : \A x \in 0..255 : Tab.big[s + 1][x + 1] = Walk(s, x, 1)
TablesOK == MiniOK /\ BigOK

---------------------------------------------------------------------------
(* Part 2: stimuli and expected results of scan().                         *)
VARIABLES stim, phase
vars == <<stim, phase>>

Fill(kind, i) == IF kind = 0 THEN 0 ELSE IF kind = 1 THEN 1 ELSE i % 2
\* a plant: [off, miss]  miss = 0: the full pattern; miss = L > 0: L pattern bits, then a wrong bit
PlantBit(pl, i) == LET j == i - pl.off IN
                   IF pl.miss = 0 THEN Pat[j]
                   ELSE IF j <= pl.miss THEN Pat[j] ELSE 1 - Pat[j]
PlantLen(pl) == IF pl.miss = 0 THEN 48 ELSE pl.miss + 1
Covers(pl, i) == i > pl.off /\ i <= pl.off + PlantLen(pl)
Bits(s) == [i \in 1..(s.nw * 32) |->
              IF \E pl \in s.plants : Covers(pl, i)
              THEN PlantBit(CHOOSE pl \in s.plants : Covers(pl, i) /\ \A o \in s.plants : Covers(o, i) => o.off <= pl.off, i)
              ELSE Fill(s.fill, i)]
\* occurrences by definition: the pattern at bits o+1..o+48, and the 32 bits after it inside the block
OccAt(b, o) == \A j \in 1..48 : b[o + j] = Pat[j]
Occs(b) == {o \in 0..(Len(b) - 80) : OccAt(b, o)}
\* scan() continues after the 80 bits of a reported candidate: later ones that start inside are not reported
RECURSIVE Chain(_, _)
Chain(S, from) == LET T == {o \in S : o >= from} IN
                  IF T = {} THEN <<>>
                  ELSE LET o == CHOOSE o \in T : \A m \in T : o <= m IN <<o + 80>> \o Chain(S, o + 80)

PlantSets == {{}} \cup {{[off |-> o, miss |-> m]} : o \in Offsets, m \in {0} \cup Misses}
             \cup (IF MaxPlants < 2 THEN {}
                   ELSE {{[off |-> o1, miss |-> 0], [off |-> o2, miss |-> 0]} : o1 \in Offsets, o2 \in Offsets})
Stimuli == {[nw |-> n, fill |-> f, plants |-> P, start |-> st, pre |-> pr, skip |-> sk] :
              n \in NWords, f \in Fillers, P \in PlantSets, st \in Starts, pr \in {0, 1}, sk \in Skips}
Fits(s) == /\ \A pl \in s.plants : pl.off + PlantLen(pl) <= s.nw * 32
           /\ s.start <= s.nw * 32
           /\ (s.pre = 1 => s.start + 32 <= s.nw * 32)

Init == stim \in {s \in Stimuli : Fits(s)} /\ phase = "new"
Next == phase = "new" /\ phase' = "done" /\ UNCHANGED stim
Spec == Init /\ [][Next]_vars

\* 32-bit words as two 16-bit halves (TLC integers are 32 bit)
Half(b, w, h) == LET base == (w - 1) * 32 + (h - 1) * 16 IN
                 LET F[k \in 0..16] == IF k = 0 THEN 0 ELSE 2 * F[k - 1] + b[base + k] IN F[16]
Expected(s) ==
  LET b == Bits(s)
      occ == Occs(b)
  IN [words |-> [w \in 1..s.nw |-> <<Half(b, w, 1), Half(b, w, 2)>>],
      start |-> s.start, pre |-> s.pre, skip |-> s.skip,
      \* with no skip: every occurrence that starts at or after the start, in order
      chain |-> Chain(occ, s.start),
      all |-> occ]
Export == phase = "done" => PrintT(<<"BEHAVIOUR", ToJson(Expected(stim))>>)
=============================================================================
