----------------------------- MODULE MCCompress -----------------------------
(***************************************************************************)
(* Model-checking instance of Compress: the monitor of process.c           *)
(* (sched_mutex / sched_cond, the worker loop, the cached next_task),      *)
(* the reader and the writer thread, over an abstract input shape.         *)
(*                                                                         *)
(* Shape: Sizes = chunk sizes in abstract units (what the reader delivers  *)
(* per read), Cap = block capacity in the same units, Exact = the last     *)
(* read filled the chunk completely (one more, empty, read follows).       *)
(***************************************************************************)
EXTENDS Compress

CONSTANTS W, TotIn, TotOut, Ultra, Thresh, Prio, Sizes, Cap, Exact

VARIABLES holder,     \* owner of sched_mutex: 0 = free, worker id, SRC or SNK
          wpc,        \* worker program counters
          nextTask,   \* the cached next_task
          waiting,    \* workers blocked in pthread_cond_wait(sched_cond)
          spc,        \* reader program counter
          kpc         \* writer program counter

svars == <<holder, wpc, nextTask, waiting, spc, kpc>>
vars == <<dvars, svars>>

Workers == 1..W
SRC == W + 1
SNK == W + 2
NChunks == Len(Sizes)
Cfg == [W |-> W, TotIn |-> TotIn, TotOut |-> TotOut, Ultra |-> Ultra, Thresh |-> Thresh, Prio |-> Prio]

Init == /\ DInit(Cfg, Workers)
        /\ holder = 0 /\ wpc = [w \in Workers |-> "start"]
        /\ nextTask = "null" /\ waiting = {} /\ spc = "take" /\ kpc = "idle"

\* sched_unlock(): select_task(), signal ONE waiter if there is work or we are done, release
Unlock(base) ==
  /\ nextTask' = Select'
  /\ holder' = 0
  /\ IF (nextTask' # "null" \/ Finished') /\ waiting # {}
     THEN \E x \in waiting : waiting' = waiting \ {x} /\ wpc' = [base EXCEPT ![x] = "woken"]
     ELSE waiting' = waiting /\ wpc' = base
\* return from task->run() with the monitor held; the worker loop calls select_task()
Return(w) == /\ nextTask' = Select' /\ holder' = holder /\ waiting' = waiting
             /\ wpc' = [wpc EXCEPT ![w] = "loop"]
Running(w, task) == wpc[w] = "loop" /\ holder = w /\ nextTask = task
At(w, pc) == wpc[w] = pc /\ holder = w
Goto(w, pc) == [wpc EXCEPT ![w] = pc]

\* pthread_mutex_lock(&sched_mutex) at the places the code takes it
WLock(w, from, to) == /\ wpc[w] = from /\ holder = 0
                      /\ holder' = w /\ wpc' = Goto(w, to)
                      /\ UNCHANGED <<dvars, nextTask, waiting, spc, kpc>>
\* worker loop with no runnable task: exit (broadcast) or wait
WIdle(w) == /\ Running(w, "null")
            /\ IF Finished
               THEN /\ wpc' = [x \in Workers |-> IF x = w THEN "done" ELSE IF x \in waiting THEN "woken" ELSE wpc[x]]
                    /\ waiting' = {}
               ELSE /\ wpc' = Goto(w, "wait") /\ waiting' = waiting \cup {w}
            /\ holder' = 0
            /\ UNCHANGED <<dvars, nextTask, spc, kpc>>

Take(left, room) == IF left <= room THEN left ELSE room

\* ---- do_collect ----
CollectBegin(w) == /\ Running(w, "collect") /\ DCollectBegin(w)
                   /\ Unlock(Goto(w, "c_collected")) /\ UNCHANGED <<spc, kpc>>
CollectLeft(w) == carry[w].ib.left - Take(carry[w].ib.left, Cap)
CollectRequeue(w) == /\ At(w, "c_requeue") /\ DCollectRequeue(w, CollectLeft(w))
                     /\ Unlock(Goto(w, "c_encoding")) /\ UNCHANGED <<spc, kpc>>
CollectRelease(w) == /\ wpc[w] = "c_collected" /\ CollectLeft(w) = 0 /\ DCollectRelease(w)
                     /\ wpc' = Goto(w, "c_encoding") /\ UNCHANGED <<holder, nextTask, waiting, spc, kpc>>
CollectEnd(w) == /\ At(w, "c_end") /\ DCollectEnd(w) /\ Return(w) /\ UNCHANGED <<spc, kpc>>

\* ---- do_collect_seq ----
SeqBegin(w) == /\ Running(w, "collect_seq") /\ DSeqBegin(w)
               /\ Unlock(Goto(w, "s_collected")) /\ UNCHANGED <<spc, kpc>>
SeqLeft(w) == carry[w].ib.left - Take(carry[w].ib.left, Cap - carry[w].wb.fill)
SeqRequeue(w) == /\ At(w, "s_requeue") /\ DSeqRequeue(w, SeqLeft(w))
                 /\ Unlock(Goto(w, "s_token")) /\ UNCHANGED <<spc, kpc>>
SeqRelease(w) == /\ wpc[w] = "s_collected" /\ carry[w].ib # None /\ SeqLeft(w) = 0 /\ DSeqRelease(w)
                 /\ wpc' = Goto(w, "s_token") /\ UNCHANGED <<holder, nextTask, waiting, spc, kpc>>
SeqNoIb(w) == /\ wpc[w] = "s_collected" /\ carry[w].ib = None
              /\ wpc' = Goto(w, "s_token") /\ UNCHANGED <<dvars, holder, nextTask, waiting, spc, kpc>>
\* collect() reports "done" when the block is full; when the input ran out exactly at a
\* full block either answer is possible (it depends on the run-length state), and with no
\* input block at all (flush at end of input) done stays true
SeqDone(w) == IF carry[w].k = "s" THEN {TRUE}
              ELSE IF carry[w].wb.fill < Cap THEN {FALSE}
              ELSE IF carry[w].wb.next[2] > 0 THEN {TRUE}   \* input left over
              ELSE {TRUE, FALSE}
SeqPark(w) == /\ At(w, "s_token_l") /\ FALSE \in SeqDone(w) /\ DSeqPark(w)
              /\ Return(w) /\ UNCHANGED <<spc, kpc>>
SeqToken(w) == /\ At(w, "s_token_l") /\ TRUE \in SeqDone(w) /\ DSeqToken(w)
               /\ Unlock(Goto(w, "s_encoding")) /\ UNCHANGED <<spc, kpc>>
SeqEnd(w) == /\ At(w, "s_end") /\ DSeqEnd(w) /\ Return(w) /\ UNCHANGED <<spc, kpc>>

\* ---- do_transmit, do_reorder ----
TransmitBegin(w) == /\ Running(w, "transmit") /\ DTransmitBegin(w)
                    /\ Unlock(Goto(w, "t_transmitting")) /\ UNCHANGED <<spc, kpc>>
TransmitEnd(w) == /\ At(w, "t_end") /\ DTransmitEnd(w) /\ Return(w) /\ UNCHANGED <<spc, kpc>>
Reorder(w) == /\ Running(w, "reorder") /\ DReorder(w) /\ Return(w) /\ UNCHANGED <<spc, kpc>>

WorkerNext(w) ==
  \/ WLock(w, "start", "loop") \/ WLock(w, "woken", "loop") \/ WIdle(w)
  \/ CollectBegin(w) \/ CollectRelease(w) \/ CollectRequeue(w) \/ CollectEnd(w)
  \/ (wpc[w] = "c_collected" /\ CollectLeft(w) > 0 /\ WLock(w, "c_collected", "c_requeue"))
  \/ WLock(w, "c_encoding", "c_end")
  \/ SeqBegin(w) \/ SeqRelease(w) \/ SeqNoIb(w) \/ SeqRequeue(w) \/ SeqPark(w) \/ SeqToken(w) \/ SeqEnd(w)
  \/ (wpc[w] = "s_collected" /\ carry[w].ib # None /\ SeqLeft(w) > 0 /\ WLock(w, "s_collected", "s_requeue"))
  \/ WLock(w, "s_token", "s_token_l") \/ WLock(w, "s_encoding", "s_end")
  \/ TransmitBegin(w) \/ WLock(w, "t_transmitting", "t_end") \/ TransmitEnd(w) \/ Reorder(w)

\* ---- reader thread ----
SrcLock(from, to) == /\ spc = from /\ holder = 0 /\ holder' = SRC /\ spc' = to
                     /\ UNCHANGED <<dvars, wpc, nextTask, waiting, kpc>>
SrcTake == /\ spc = "take" /\ DSrcTake
           /\ spc' = (IF nextId < NChunks THEN "avail" ELSE "empty")
           /\ UNCHANGED <<holder, wpc, nextTask, waiting, kpc>>
SrcEmpty == /\ spc = "empty" /\ DSrcEmpty /\ spc' = "eof"
            /\ UNCHANGED <<holder, wpc, nextTask, waiting, kpc>>
SrcAvail == /\ spc = "avail_l" /\ holder = SRC /\ DAvail(Sizes[nextId + 1])
            /\ spc' = (IF nextId' < NChunks \/ Exact THEN "take" ELSE "eof")
            /\ Unlock(wpc) /\ UNCHANGED kpc
SrcEof == /\ spc = "eof_l" /\ holder = SRC /\ DEof /\ spc' = "done"
          /\ Unlock(wpc) /\ UNCHANGED kpc
\* ---- writer thread ----
SinkPop == /\ kpc = "idle" /\ DSinkPop /\ kpc' = "written"
           /\ UNCHANGED <<holder, wpc, nextTask, waiting, spc>>
SinkLock == /\ kpc = "written" /\ holder = 0 /\ holder' = SNK /\ kpc' = "written_l"
            /\ UNCHANGED <<dvars, wpc, nextTask, waiting, spc>>
SinkWritten == /\ kpc = "written_l" /\ holder = SNK /\ DWritten /\ kpc' = "idle"
               /\ Unlock(wpc) /\ UNCHANGED spc

Next == \/ \E w \in Workers : WorkerNext(w)
        \/ SrcTake \/ SrcEmpty \/ SrcLock("avail", "avail_l") \/ SrcAvail
        \/ SrcLock("eof", "eof_l") \/ SrcEof
        \/ SinkPop \/ SinkLock \/ SinkWritten
Spec == Init /\ [][Next]_vars
FairSpec == Spec /\ WF_vars(Next)

---------------------------------------------------------------------------
AllDone == \A w \in Workers : wpc[w] = "done"
\* the cached next_task is always the task select_task() would pick now
NextTaskFresh == holder = 0 => nextTask = Select
\* the model's input really is Sizes
ShapeOK == \A i \in 1..Len(sizes) : sizes[i] = Sizes[i]
\* when all workers have left the loop the run is complete and the state is the one the
\* next operand's init() expects (collect_token and unfinished_work are never re-initialised)
Termination == AllDone => (Quiescent /\ spc = "done" /\ kpc = "idle" /\ Len(sizes) = NChunks)
NoDeadlock == (AllDone /\ sinkQ = <<>> /\ kpc = "idle") \/ ENABLED Next
Live == <>(AllDone /\ sinkQ = <<>> /\ kpc = "idle")
=============================================================================
