---------------------------- MODULE TraceExpand ----------------------------
(***************************************************************************)
(* Trace validation of lbzip2 decompression runs: every event recorded by  *)
(* the hooks in process.c / expand.c must be explained by the action of    *)
(* Expand it names, with the outcome the event logged (where parse(),      *)
(* scan(), retrieve(), emit() stopped and with what status), the logged    *)
(* post-state scalars must equal the specification's post-state, and the   *)
(* invariants of Expand must hold after every event.                       *)
(*                                                                         *)
(* Strict = FALSE: property layer only (capacity, conservation, AttachOK,  *)
(* confirmed-and-ordered output, monitor discipline, reset state).         *)
(* Strict = TRUE: additionally the scheduling policy of the model.         *)
(***************************************************************************)
EXTENDS Expand, Json, IOUtils

CONSTANTS Strict, MaxTid, CheckLeak

TraceLog == ndJsonDeserialize(IOEnv.TRACE)

VARIABLES l,        \* index of the next event
          bpb,      \* bits per I/O block (in_granul * 8)
          pend,     \* thread -> input buffers it released since its last ...Begin
          meta,     \* sequence of [base, size]: output buffers as produced by emit()
          rss, nrun
tvars == <<dvars, l, bpb, pend, meta, rss, nrun>>

Ev == TraceLog[l]
Tids == 0..MaxTid
Bit(m, b) == (m \div b) - 2 * (m \div (2 * b)) = 1
Sched == Bit(Ev.mon, 1)
Source == Bit(Ev.mon, 2)
Sink == Bit(Ev.mon, 4)
P(maj, bit, off) == [p |-> maj * bpb + bit, o |-> off]
B(maj, bit, sub) == <<maj * bpb + bit, sub>>

Must(cond, name) == IF cond THEN TRUE ELSE PrintT(<<"REJECT", l, Ev.e, name>>) /\ FALSE
Policy(cond, name) == IF Strict THEN Must(cond, name) ELSE TRUE
Is(name) == l <= Len(TraceLog) /\ Ev.e = name
Step == l' = l + 1
Zero == [W |-> 0, TotIn |-> 0, TotOut |-> 0, Ultra |-> FALSE, ScanTh |-> 0, EmitTh |-> 0, UnordTh |-> 0,
         Prio |-> <<>>, Bpw |-> 32]
PendTotal == LET S == {t \in Tids : pend[t] > 0} IN Cardinality(S) \* at most one release per thread is rare; see PendSum
RECURSIVE SumTo(_)
SumTo(n) == IF n < 0 THEN 0 ELSE pend[n] + SumTo(n - 1)
PendSum == SumTo(MaxTid)

Scalars ==
  /\ Must(Ev.wu = workUnits', "work_units") /\ Must(Ev.os = outSlots', "out_slots")
  /\ Must((Ev.pt = 1) = parseToken', "parse_token") /\ Must((Ev.pd = 1) = parsingDone', "parsing_done")
  /\ Must(Ev.to = tailOffs', "tail_offs") /\ Must(Ev.ho = HeadOf(inputQ'), "head_offs")
  /\ Must(Ev.nin = Len(inputQ'), "size(input_q)") /\ Must(Ev.nsc = Cardinality(scanQ'), "size(scan_q)")
  /\ Must(Ev.nre = Cardinality(retrQ'), "size(retr_q)") /\ Must(Ev.nem = Cardinality(emitQ'), "size(emit_q)")
  /\ Must(Ev.nro = Cardinality(reordQ'), "size(reord_q)") /\ Must(Ev.nor = Len(orderQ'), "size(order_q)")
  /\ Must(Ev.nun = Cardinality({u \in unord' : u.inQ}), "size(unord_q)")
  /\ Must(P(Ev.pmaj, Ev.pbit, Ev.poff) = parserPos', "parser position")
  /\ Must((Ev.eof = 1) = eof', "eof")
  /\ Must(Ev.ldec <= cfg'.W - workUnits', "live decoders <= held work units")
  /\ Must(Ev.lout <= cfg'.TotOut - outSlots', "live output buffers <= held slots")

Init == /\ DInit(Zero, Tids) /\ l = 1 /\ bpb = 32 /\ pend = [t \in Tids |-> 0] /\ meta = <<>> /\ rss = 0 /\ nrun = 0
Keep == UNCHANGED <<bpb, pend, meta, rss, nrun>>

TReset == /\ Is("Reset") /\ Step /\ DReset(Zero, Tids)
          /\ pend' = [t \in Tids |-> 0] /\ meta' = <<>> /\ UNCHANGED <<bpb, rss, nrun>>
TStart == /\ Is("Start") /\ Step
          \* C13: what a run may hold is linear in the worker count, with buffers no larger than one maximal block / I/O block
          /\ Must(Ev.og <= 900000 /\ Ev.ig <= 1048576 /\ Ev.tout <= 32 * Ev.W + 8 /\ Ev.tin <= 8 * Ev.W + 8,
                  "slot totals linear in the worker count, buffer sizes within one block")
          /\ Must(Ev.d = 1, "decompression run")
          /\ Must(\A t \in Tids : Carry(t) = None, "no job in flight")
          /\ DReset([Zero EXCEPT !.W = Ev.W, !.TotIn = Ev.tin, !.TotOut = Ev.tout, !.Ultra = (Ev.ultra = 1)], Tids)
          /\ bpb' = Ev.ig * 8 /\ pend' = [t \in Tids |-> 0] /\ meta' = <<>> /\ nrun' = nrun + 1 /\ UNCHANGED rss
TInitX == /\ Is("InitX") /\ Step
          /\ Must(Ev.W = cfg.W /\ Ev.tin = cfg.TotIn /\ Ev.tout = cfg.TotOut, "queue capacities = slot totals")
          /\ Must(Ev.ig * 8 = bpb, "in_granul")
          /\ cfg' = [cfg EXCEPT !.ScanTh = Ev.sth, !.EmitTh = Ev.eth, !.UnordTh = Ev.uth, !.Prio = Ev.tasks]
          /\ UNCHANGED <<workUnits, outSlots, inSlots, eof, reqClose, inputQ, zombies, tailOffs, scanQ, retrQ, emitQ,
                         reordQ, orderQ, unord, parseToken, parsingDone, parserPos, carry, srcBuf, sinkQ, acks,
                         written, failed>>
          /\ Scalars /\ Keep

\* ---- reader ----
TSrcTake == /\ Is("SrcTake") /\ Step /\ Must(Source, "source_mutex held")
            /\ DSrcTake /\ Must(Ev.is = inSlots', "in_slots") /\ Keep
TSrcRel == /\ Is("SrcRel") /\ Step /\ Must(Source, "source_mutex held")
           /\ IF Carry(Ev.tid).k \in {"parse", "retr", "scan"}
              THEN \* released inside detach()/advance(): accounted for now, reconciled at the ...End event
                   /\ inSlots' = inSlots + 1 /\ pend' = [pend EXCEPT ![Ev.tid] = @ + 1]
                   /\ UNCHANGED <<cfg, workUnits, outSlots, eof, reqClose, inputQ, zombies, tailOffs, scanQ, retrQ,
                                  emitQ, reordQ, orderQ, unord, parseToken, parsingDone, parserPos, carry, srcBuf,
                                  sinkQ, acks, written, failed, bpb, meta, rss, nrun>>
              ELSE DSrcEmpty /\ Keep
           /\ Must(Ev.is = inSlots', "in_slots")
TSrcClose == /\ Is("SrcClose") /\ Step /\ Must(Source, "source_mutex held") /\ Must(Sched, "sched_mutex held")
             /\ DSrcClose(Ev.tid) /\ Keep
TSrcStop == /\ Is("SrcStop") /\ Step /\ Must(Source, "source_mutex held") /\ DSrcStop /\ Keep
TAvail == /\ Is("Avail") /\ Step /\ Must(Sched, "sched_mutex held")
          /\ Must(~parsingDone, "input accepted only before FINISH")
          /\ DAvail(Ev.words) /\ Scalars /\ Keep
TAvailDrop == /\ Is("AvailDrop") /\ Step /\ Must(Sched, "sched_mutex held") /\ DAvailDrop /\ Scalars /\ Keep
TEof == /\ Is("Eof") /\ Step /\ Must(Sched, "sched_mutex held") /\ DEof /\ Keep

\* ---- workers ----
TWStart == /\ Is("WStart") /\ Step /\ Must(Sched, "sched_mutex held") /\ UNCHANGED dvars /\ Keep
TWWait == /\ Is("WWait") /\ Step /\ Must(Sched, "sched_mutex held")
          /\ Must(Carry(Ev.tid) = None, "waiting worker holds no job")
          /\ Policy(Select = "null" /\ ~Finished, "wait only when nothing is runnable")
          /\ UNCHANGED dvars /\ Keep
TWWake == /\ Is("WWake") /\ Step /\ Must(Sched, "sched_mutex held") /\ UNCHANGED dvars /\ Keep
TWExit == /\ Is("WExit") /\ Step /\ Must(Sched, "sched_mutex held")
          /\ Must(Carry(Ev.tid) = None, "leaving worker holds no job")
          /\ Policy(Finished, "leave only when finished")
          /\ UNCHANGED dvars /\ Keep
Begin(task) == /\ Must(Sched, "sched_mutex held") /\ Policy(Select = task, "task = select_task()")
\* an ...End event: the releases seen since ...Begin are exactly those of the model
EndRel == /\ Must(Ev.rel = pend[Ev.tid], "input buffers released in this section (logged)")
          /\ Must(inSlots' = inSlots, "input buffers released in this section (model)")
          /\ pend' = [pend EXCEPT ![Ev.tid] = 0]
PPos == P(Ev.pmaj, Ev.pbit, Ev.poff)

\* ---- parser ----
TParseBegin == /\ Is("ParseBegin") /\ Step /\ Begin("parse")
               /\ Must(~parsingDone /\ parseToken /\ workUnits > 0, "parser may run")
               /\ Must(CanAttach(parserPos.o) /\ parserPos.o >= headOffs, "parser position is attachable")
               /\ Must(pend[Ev.tid] = 0, "no unaccounted release")
               /\ DParseBegin(Ev.tid) /\ Scalars /\ Keep
TParseMore == /\ Is("ParseMore") /\ Step /\ Must(Sched, "sched_mutex held")
              /\ Must(Carry(Ev.tid).k = "parse", "thread is parsing")
              /\ DParseMore(Ev.tid, PPos, pend[Ev.tid]) /\ Scalars /\ EndRel /\ UNCHANGED <<bpb, meta, rss, nrun>>
TParseFinish == /\ Is("ParseFinish") /\ Step /\ Must(Sched, "sched_mutex held")
                /\ Must(Carry(Ev.tid).k = "parse", "thread is parsing")
                /\ DParseFinish(Ev.tid, PPos, pend[Ev.tid]) /\ Scalars /\ EndRel /\ UNCHANGED <<bpb, meta, rss, nrun>>
TParseErr == /\ Is("ParseErr") /\ Step /\ Must(Sched, "sched_mutex held")
             /\ Must(Carry(Ev.tid).k = "parse", "thread is parsing")
             /\ DParseErr(Ev.tid) /\ Keep
TParseBlock == /\ Is("ParseBlock") /\ Step /\ Must(Sched, "sched_mutex held")
               /\ Must(Carry(Ev.tid).k = "parse", "thread is parsing")
               /\ LET pos == P(Ev.maj, Ev.bit, Ev.boff) IN
                  /\ Must(Ev.stale = Cardinality(StaleU(pos.p)), "stale candidates discarded")
                  /\ Must((Ev.kind = 0) = (HitU(pos.p) = {}), "candidate at this position taken iff present")
                  /\ (IF HitU(pos.p) # {} THEN Must((Ev.kind = 1) = (CHOOSE u \in HitU(pos.p) : TRUE).complete, "taken candidate complete") ELSE TRUE)
                  /\ DParseBlock(Ev.tid, pos, pend[Ev.tid])
               /\ Scalars /\ EndRel /\ UNCHANGED <<bpb, meta, rss, nrun>>

\* ---- retriever ----
TRetrBegin == /\ Is("RetrBegin") /\ Step /\ Begin("retrieve")
              /\ Must(retrQ # {} /\ ~parsingDone, "retr_q not empty")
              /\ LET r == [base |-> Ev.maj * bpb + Ev.bit, cur |-> P(Ev.cmaj, Ev.cbit, Ev.coff), link |-> (Ev.link = 1)] IN
                 /\ Must(r \in MinRetrs(retrQ), "head of retr_q")
                 /\ Must(CanAttach(r.cur.o), "job position is attachable")
                 /\ Must(r.cur.o >= headOffs, "job position not behind released input (assert in can_attach)")
                 /\ Must(pend[Ev.tid] = 0, "no unaccounted release")
                 /\ DRetrBegin(Ev.tid, r)
              /\ Scalars /\ Keep
TRetrEnd == /\ Is("RetrEnd") /\ Step /\ Must(Sched, "sched_mutex held")
            /\ Must(Carry(Ev.tid).k = "retr" /\ Carry(Ev.tid).rb.base = Ev.maj * bpb + Ev.bit, "thread is retrieving this block")
            /\ Must(CASE Ev.kind = "dead" -> RetrKind(Ev.tid) = "dead"
                      [] Ev.kind = "redundant" -> RetrKind(Ev.tid) = "redundant"
                      [] Ev.kind = "more" -> RetrKind(Ev.tid) = "live" /\ Ev.rv = MORE /\ (Ev.master = 1) = RetrMaster(Ev.tid)
                      [] Ev.kind = "overtaken" -> RetrKind(Ev.tid) = "live" /\ Ev.rv = MORE /\ ~RetrMaster(Ev.tid)
                                                  /\ Ev.coff < HeadOf(AfterDetach(Carry(Ev.tid).pin).q)
                      [] Ev.kind = "done" -> RetrKind(Ev.tid) = "live" /\ Ev.rv # MORE /\ (Ev.master = 1) = RetrMaster(Ev.tid)
                      [] OTHER -> FALSE, "retrieve outcome class")
            /\ DRetrEnd(Ev.tid, Ev.rv, P(Ev.cmaj, Ev.cbit, Ev.coff), pend[Ev.tid])
            /\ Scalars /\ EndRel /\ UNCHANGED <<bpb, meta, rss, nrun>>
TRetrPush == /\ Is("RetrPush") /\ Step /\ Must(Sched, "sched_mutex held")
             /\ Must(Carry(Ev.tid).k = "decode" /\ Carry(Ev.tid).base = Ev.maj * bpb + Ev.bit /\ Carry(Ev.tid).st = Ev.st, "thread decoded this block")
             /\ DRetrPush(Ev.tid) /\ Scalars /\ Keep

\* ---- emitter, reorder ----
TEmitBegin == /\ Is("EmitBegin") /\ Step /\ Begin("emit")
              /\ Must(emitQ # {} /\ outSlots > 0, "emit_q not empty and a slot is free")
              /\ Must(MinBase(emitQ).base = B(Ev.maj, Ev.bit, Ev.sub), "head of emit_q")
              /\ DEmitBegin(Ev.tid) /\ Scalars /\ Keep
TEmitEnd == /\ Is("EmitEnd") /\ Step /\ Must(Sched, "sched_mutex held")
            /\ Must(Carry(Ev.tid).k = "emit" /\ Carry(Ev.tid).eb.base = B(Ev.maj, Ev.bit, Ev.sub), "thread is emitting this buffer")
            /\ Must(Carry(Ev.tid).eb.st # OK => Ev.st = Carry(Ev.tid).eb.st, "failed retrieval passed through")
            /\ DEmitEnd(Ev.tid, Ev.st) /\ Scalars
            /\ meta' = Append(meta, [base |-> B(Ev.maj, Ev.bit, Ev.sub), size |-> Ev.size])
            /\ UNCHANGED <<bpb, pend, rss, nrun>>
MetaOf(b) == LET S == {i \in 1..Len(meta) : meta[i].base = b} IN meta[CHOOSE i \in S : TRUE]
TReorder == /\ Is("Reorder") /\ Step /\ Begin("reorder")
            /\ Must(reordQ # {}, "reord_q not empty")
            /\ Must(MinBase(reordQ).base = B(Ev.maj, Ev.bit, Ev.sub), "head of reord_q")
            /\ Must((Ev.kind = "bogus") = ReorderBogus, "rejected iff not the block the parser confirmed next")
            /\ (IF Ev.kind = "bogus" THEN TRUE
                ELSE /\ Must(MinBase(reordQ).base = Head(orderQ), "output buffer is the next confirmed one")
                     /\ Must(MetaOf(MinBase(reordQ).base).size = Ev.size, "buffer identity (size)")
                     /\ Must(CASE Ev.kind = "part" -> Ev.st = MORE [] Ev.kind = "last" -> Ev.st = OK
                               [] Ev.kind = "fail" -> Ev.st > MORE [] OTHER -> FALSE, "reorder outcome class"))
            \* a failing block ends the process (failf) half-way through do_reorder(): no post-state to compare
            /\ DReorder(Ev.tid, Ev.st) /\ (IF Ev.kind = "fail" THEN TRUE ELSE Scalars) /\ Keep
TSinkPush == /\ Is("SinkPush") /\ Step /\ Must(Sink, "sink_mutex held")
             \* (the writer may pop between the Reorder event and the physical push)
             /\ Must(Ev.n <= Len(sinkQ) /\ Ev.n <= cfg.TotOut, "size(output_q)")
             /\ Must(sinkQ # <<>> /\ MetaOf(sinkQ[Len(sinkQ)]).size = Ev.size, "pushed buffer is the reordered one")
             /\ UNCHANGED dvars /\ Keep
TSinkPop == /\ Is("SinkPop") /\ Step /\ Must(Sink, "sink_mutex held")
            /\ Must(sinkQ # <<>>, "output_q not empty")
            /\ Must(MetaOf(Head(sinkQ)).size = Ev.size, "popped buffer is the oldest one")
            /\ DSinkPop /\ Must(Ev.n <= Len(sinkQ'), "size(output_q)") /\ Keep
TWritten == /\ Is("Written") /\ Step /\ Must(Sched, "sched_mutex held") /\ DWritten /\ Scalars /\ Keep
TSinkFinish == /\ Is("SinkFinish") /\ Step /\ Must(Sink, "sink_mutex held") /\ UNCHANGED dvars /\ Keep
TSinkExit == /\ Is("SinkExit") /\ Step /\ Must(sinkQ = <<>> /\ acks = 0, "writer leaves with nothing pending")
             /\ UNCHANGED dvars /\ Keep

\* ---- scanner ----
TScanBegin == /\ Is("ScanBegin") /\ Step /\ Begin("scan")
              /\ Must(scanQ # {} /\ workUnits > 0 /\ ~parsingDone, "scan_q not empty and a unit is free")
              /\ LET x == MinPos(scanQ) IN
                 /\ Must(x = P(Ev.maj, Ev.bit, Ev.off), "head of scan_q")
                 /\ Must(CanAttach(x.o) /\ x.o >= headOffs /\ x.o < tailOffs, "scan position is attachable")
              /\ Must(pend[Ev.tid] = 0, "no unaccounted release")
              /\ DScanBegin(Ev.tid) /\ Scalars /\ Keep
TScanEnd == /\ Is("ScanEnd") /\ Step /\ Must(Sched, "sched_mutex held")
            /\ Must(Carry(Ev.tid).k = "scan", "thread is scanning")
            /\ LET pos == P(Ev.maj, Ev.bit, Ev.off)
                   found == Ev.found = 1
               IN /\ Must(CASE Ev.kind = "miss" -> ~found \/ parsingDone
                            [] Ev.kind = "known" -> found /\ ~parsingDone /\ pos.p <= parserPos.p
                            [] Ev.kind = "unique" -> found /\ ~parsingDone /\ pos.p > parserPos.p
                            [] OTHER -> FALSE, "scan outcome class")
                  \* the requeue decision is !atEnd /\ offset >= head_offs; atEnd is not logged separately
                  /\ DScanEnd(Ev.tid, found, pos, ~(Ev.requeue = 1), pend[Ev.tid])
                  /\ Must(Ev.kind = "miss" \/ (Ev.requeue = 1 => pos.o >= headOffs), "requeued scan job not behind released input")
            /\ Scalars /\ EndRel /\ UNCHANGED <<bpb, meta, rss, nrun>>

\* ---- end of run ----
TUninit == /\ Is("Uninit") /\ Step
           /\ Must(Quiescent, "state at uninit() is the reset state")
           /\ Must(inSlots = cfg.TotIn /\ ConserveIn(0), "all input slots returned")
           /\ Must(Ev.wu = cfg.W /\ Ev.os = cfg.TotOut /\ Ev.is = cfg.TotIn /\ Ev.eof = 1, "all units and slots returned")
           /\ Must(Ev.live[1] = 0 /\ Ev.live[3] = 0 /\ Ev.live[4] = 0, "no buffer outlives the run")
           /\ (IF CheckLeak THEN Must(Ev.live[5] = 0, "no unord_blk outlives the run") ELSE TRUE)
           /\ Must(Ev.peak[1] <= cfg.TotIn /\ Ev.peak[3] <= cfg.TotOut /\ Ev.peak[4] <= cfg.W, "peak buffers within slot totals")
           /\ Must(("heapk" \in DOMAIN Ev) => Ev.heapk <= 64 + 4 * cfg.W,
                   "the heap is back to its size at the start of the run (nothing allocated for the run outlives it)")
           /\ rss' = Ev.rss /\ UNCHANGED <<dvars, bpb, pend, meta, nrun>>

\* the main thread's path through main.c / signals.c (validated by TraceCrash.tla) is stuttering here
MainPathEv == {"OpIn", "Cli", "OpOut", "Worked", "Halt", "OutDone", "InRm", "Sti", "StiDone", "InDone", "Exit", "Cleanup", "Terminate", "BailoutMain", "BailoutSub"}
TMainPath == l <= Len(TraceLog) /\ Ev.e \in MainPathEv /\ Step /\ UNCHANGED dvars /\ Keep

\* the capacities the code allocated for its deques are the ones the model's capacity invariants assume
TQueueCaps == /\ Is("QueueCaps") /\ Step
              /\ Must(("order_q" \in DOMAIN Ev) => (Ev.order_q = cfg.W + cfg.TotOut /\ Ev.input_q = cfg.TotIn), "order_q holds W + TotOut entries, input_q TotIn")
              /\ Must(("output_q" \in DOMAIN Ev) => Ev.output_q = cfg.TotOut, "output_q holds TotOut entries")
              /\ UNCHANGED dvars /\ Keep

Next == \/ TQueueCaps \/ TMainPath \/ TReset \/ TStart \/ TInitX \/ TSrcTake \/ TSrcRel \/ TSrcClose \/ TSrcStop \/ TAvail \/ TAvailDrop \/ TEof
        \/ TWStart \/ TWWait \/ TWWake \/ TWExit
        \/ TParseBegin \/ TParseMore \/ TParseFinish \/ TParseErr \/ TParseBlock
        \/ TRetrBegin \/ TRetrEnd \/ TRetrPush \/ TEmitBegin \/ TEmitEnd \/ TReorder
        \/ TSinkPush \/ TSinkPop \/ TWritten \/ TSinkFinish \/ TSinkExit
        \/ TScanBegin \/ TScanEnd \/ TUninit
Spec == Init /\ [][Next]_tvars

NotAccepted == l <= Len(TraceLog)
TraceInv == cfg.W > 0 => (DataInv /\ ConserveIn(PendSum))
=============================================================================
