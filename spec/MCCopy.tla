------------------------------- MODULE MCCopy -------------------------------
(* Every interleaving of reader and writer of the -cdf copy loop for an input of NReads buffers
   (Exact: the last read filled its buffer, so one more, empty, read follows). *)
EXTENDS Copy
CONSTANTS NReads, Exact
VARIABLES spc
vars == <<cvars, spc>>
Init == CInit /\ spc = "take"
Src == \/ (spc = "take" /\ CSrcTake /\ spc' = (IF nread < NReads THEN "avail" ELSE "empty"))
       \/ (spc = "avail" /\ CAvail /\ spc' = (IF nread' < NReads \/ Exact THEN "take" ELSE "eof"))
       \/ (spc = "empty" /\ CSrcEmpty /\ spc' = "eof")
       \/ (spc = "eof" /\ CEof /\ spc' = "done")
Snk == (CSinkPop \/ CRelease \/ CWritten) /\ UNCHANGED spc
Next == Src \/ Snk
Spec == Init /\ [][Next]_vars
FairSpec == Spec /\ WF_vars(Next)
Finished == spc = "done" /\ Len(written) = nread /\ acks = 0
NoDeadlock == Finished \/ ENABLED Next
\* the main thread is released exactly once, and only at the very end
SignalledAtEnd == Finished => (usr2 = 1 /\ nread = NReads /\ inSlots = TotIn /\ outSlots = TotOut)
Live == <>Finished
\* the counter abstraction whose inductive invariant Apalache discharges for every input length
Ind == INSTANCE CopyInd WITH q <- Len(sinkQ), w <- Len(written)
IndHolds == Ind!IndInv /\ Ind!Safe
IndRefines == [][Ind!Next]_(Ind!vars)
=============================================================================
