-------------------------------- MODULE Crash --------------------------------
(***************************************************************************)
(* One FILE operand of lbzip2 as the sequence of system calls main.c makes *)
(* for it (input_init, cli, output_init, work, output_regf_uninit,         *)
(* input_oprnd_rm, sti, input_uninit, exit), with the environment able to  *)
(* make any one call fail, to deliver SIGINT / SIGTERM at any point        *)
(* (blocked between cli() and sti() except while the main thread waits in  *)
(* sigsuspend() during work()), or to kill the process outright.           *)
(*                                                                         *)
(* Abstract file system: inp \in {"present", "gone"}, out \in {"absent",   *)
(* "partial", "complete"} ("complete" = all data written and the           *)
(* descriptor closed).  TLC checks the dichotomy of C16 in every terminal  *)
(* state, and prints for every (injection point, fault) the outcome the    *)
(* real binary must show; tools/checks/c16.py replays each one through     *)
(* harness/preload_io.c at every concrete call position of that kind.      *)
(***************************************************************************)
EXTENDS Naturals, Sequences, TLC, Json

CONSTANTS Keep,         \* -k given
          Damaged       \* the input is damaged: a worker detects it during work() and the run ends in bailout()

\* the calls of one operand, in order; "work" stands for all the reads and writes of work()
Steps == IF Damaged THEN <<"open_in", "cli", "open_out", "work", "unlink_out">>
         ELSE <<"open_in", "cli", "open_out", "work", "fchown", "fchmod", "futimens", "close_out", "unlink_in", "sti", "close_in", "exit">>
\* "failsig": a write that fails with EPIPE / EFBIG, for which the kernel also generates SIGPIPE / SIGXFSZ
Faults == {"none", "fail", "failsig", "sigint", "sigterm", "kill"}

VARIABLES pc,        \* index into Steps of the call about to be made
          inp, out,  \* abstract file system
          blocked,   \* SIGINT/SIGTERM blocked (cli .. sti)
          pending,   \* a blocked signal is pending
          warned,    \* a warning was printed (exit status 4)
          result,    \* "running" | "exit0" | "exit4" | "exit1" | "signal" | "killed"
          plan       \* [at |-> step index, fault |-> one of Faults]: the single fault of this behaviour
vars == <<pc, inp, out, blocked, pending, warned, result, plan>>

Init == /\ pc = 1 /\ inp = "present" /\ out = "absent" /\ blocked = FALSE /\ pending = FALSE /\ warned = FALSE
        /\ result = "running"
        /\ plan \in {p \in [at : 1..Len(Steps), fault : Faults] : p.fault = "failsig" => Steps[p.at] = "work"}

Fault == IF plan.at = pc THEN plan.fault ELSE "none"
Die(r) == result' = r /\ UNCHANGED <<pc, inp, blocked, pending, warned, plan>>
\* fatal error on the main path: cleanup() unlinks the output if its name is still recorded
Fatal == /\ result' = "exit1" /\ out' = (IF out = "partial" THEN "absent" ELSE out)
         /\ UNCHANGED <<pc, inp, blocked, pending, warned, plan>>
Go(n) == pc' = n /\ UNCHANGED plan

Step ==
  /\ result = "running"
  /\ LET s == Steps[pc] f == Fault IN
     IF f = "kill" THEN Die("killed") /\ UNCHANGED out
     ELSE IF f \in {"sigint", "sigterm"} /\ ~blocked
     THEN \* default action (outside cli..sti), or the handler while work() waits in sigsuspend()
          /\ result' = "signal" /\ out' = (IF s = "work" THEN "absent" ELSE out)
          /\ UNCHANGED <<pc, inp, blocked, pending, warned, plan>>
     ELSE
       LET sigp == pending \/ f \in {"sigint", "sigterm"} IN
       CASE s = "open_in" ->
              IF f = "fail" THEN result' = "exit4" /\ UNCHANGED <<pc, inp, out, blocked, pending, warned, plan>>
              ELSE Go(pc + 1) /\ UNCHANGED <<inp, out, blocked, pending, warned, result>>
         [] s = "cli" -> Go(pc + 1) /\ blocked' = TRUE /\ UNCHANGED <<inp, out, pending, warned, result>>
         [] s = "open_out" ->
              IF f = "fail" THEN result' = (IF sigp THEN "signal" ELSE "exit4") /\ UNCHANGED <<pc, inp, out, blocked, pending, warned, plan>>
              ELSE Go(pc + 1) /\ out' = "partial" /\ pending' = sigp /\ UNCHANGED <<inp, blocked, warned, result>>
         [] s = "work" ->
              \* the main thread waits in sigsuspend(): a pending or arriving SIGINT/SIGTERM is taken here -
              \* unless it is delivered together with the SIGUSR2 that announces completion and the handler of
              \* SIGUSR2 runs last (caught_index is overwritten): then the run simply completes
              IF sigp THEN \/ result' = "signal" /\ out' = "absent" /\ UNCHANGED <<pc, inp, blocked, pending, warned, plan>>
                           \/ Go(pc + 1) /\ pending' = FALSE /\ UNCHANGED <<inp, out, blocked, warned, result>>
              ELSE IF f = "fail" THEN Fatal
              \* the failing thread forwards its SIGPIPE / SIGXFSZ to the process, where it stays blocked until the main
              \* thread, woken by SIGUSR1, has run cleanup() and unblocks it: death by that signal, output removed
              ELSE IF f = "failsig" THEN \/ result' = "sigfail" /\ out' = "absent" /\ UNCHANGED <<pc, inp, blocked, pending, warned, plan>>
                                         \* (with a damaged input the data error may be reported first)
                                         \/ Damaged /\ Go(pc + 1) /\ UNCHANGED <<inp, out, blocked, pending, warned, result>>
              \* damaged input: a worker reports the data error and raises SIGUSR1; the main thread runs bailout()
              ELSE IF Damaged THEN Go(pc + 1) /\ UNCHANGED <<inp, out, blocked, pending, warned, result>>
              ELSE Go(pc + 1) /\ UNCHANGED <<inp, out, blocked, pending, warned, result>>
         [] s = "unlink_out" ->       \* cleanup(): remove the partial output; if that fails it stays, but the run still ends
              /\ result' = "exit1" /\ out' = (IF f = "fail" THEN out ELSE "absent")
              /\ UNCHANGED <<pc, inp, blocked, pending, warned, plan>>
         [] s \in {"fchown", "fchmod", "futimens"} ->
              Go(pc + 1) /\ warned' = (warned \/ f = "fail") /\ pending' = sigp /\ UNCHANGED <<inp, out, blocked, result>>
         [] s = "close_out" ->
              IF f = "fail" THEN Fatal
              ELSE Go(pc + 1) /\ out' = "complete" /\ pending' = sigp /\ UNCHANGED <<inp, blocked, warned, result>>
         [] s = "unlink_in" ->
              IF Keep THEN Go(pc + 1) /\ pending' = sigp /\ UNCHANGED <<inp, out, blocked, warned, result>>
              ELSE IF f = "fail" THEN Go(pc + 1) /\ warned' = TRUE /\ pending' = sigp /\ UNCHANGED <<inp, out, blocked, result>>
              ELSE Go(pc + 1) /\ inp' = "gone" /\ pending' = sigp /\ UNCHANGED <<out, blocked, warned, result>>
         [] s = "sti" ->
              IF sigp THEN Die("signal") /\ UNCHANGED out
              ELSE Go(pc + 1) /\ blocked' = FALSE /\ UNCHANGED <<inp, out, pending, warned, result>>
         [] s = "close_in" ->
              IF f = "fail" THEN result' = "exit1" /\ UNCHANGED <<pc, inp, out, blocked, pending, warned, plan>>
              ELSE Go(pc + 1) /\ UNCHANGED <<inp, out, blocked, pending, warned, result>>
         [] OTHER -> result' = (IF warned THEN "exit4" ELSE "exit0") /\ UNCHANGED <<pc, inp, out, blocked, pending, warned, plan>>

Spec == Init /\ [][Step]_vars

Terminal == result # "running"
StateA == inp = "present" /\ out = "absent"
StateB == out = "complete" /\ (Keep \/ inp = "gone" \/ plan = [at |-> 9, fault |-> "fail"])
\* the one end state outside the dichotomy that no program can avoid: the removal of the partial output itself failed
CannotRemove == Damaged /\ Steps[plan.at] = "unlink_out" /\ plan.fault = "fail"
\* C16: a run that is interrupted or fails leaves the operand in state A or in state B
Dichotomy == (Terminal /\ result # "killed") => (StateA \/ StateB \/ (CannotRemove /\ inp = "present" /\ result = "exit1"))
\* success is never reported with the operand in state A, nor failure with the input gone and no output
StatusHonest == /\ (result \in {"exit0", "exit4"} /\ plan.at > 1 /\ ~(plan.at = 3 /\ plan.fault = "fail")) => StateB
                /\ (result \in {"exit1", "sigfail"} /\ ~(plan.at = 11) /\ ~CannotRemove) => StateA
                \* a damaged input never ends in success (unless the operand was skipped before it was read)
                /\ (Damaged /\ ~(plan.fault = "fail" /\ plan.at \in {1, 3})) => result \notin {"exit0", "exit4"}
\* after SIGKILL at any moment the input is intact unless a complete output exists
KillSafe == result = "killed" => (inp = "present" \/ out = "complete")
Export == Terminal => PrintT(<<"BEHAVIOUR", ToJson([keep |-> Keep, damaged |-> Damaged, at |-> Steps[plan.at], fault |-> plan.fault,
                                                     result |-> result, inp |-> inp, out |-> out])>>)
=============================================================================
