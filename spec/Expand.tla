------------------------------- MODULE Expand -------------------------------
(***************************************************************************)
(* Data layer of lbzip2's decompression pipeline (src/expand.c on top of   *)
(* src/process.c): the sequential parser, the speculative scanner, the     *)
(* retrieve / emit jobs and the reorder step, with the input-block         *)
(* bookkeeping (attach / detach / advance).                                *)
(*                                                                         *)
(* One operator per critical section of the code.  Where the code's        *)
(* behaviour depends on what the codec functions parse(), scan(),          *)
(* retrieve(), emit() return, the operator takes an OUTCOME record.        *)
(*   MCExpand     supplies outcomes from an abstract input shape and lets  *)
(*                TLC explore every interleaving of the monitor;           *)
(*   TraceExpand  supplies outcomes from events recorded by the real       *)
(*                binary (hooks under -DKJN_LBZIP2_VERIF).                 *)
(*                                                                         *)
(* A position is a record [p, o]: p is the ordering key (the bit position  *)
(* kept in struct position and used by every priority queue), o the        *)
(* attach key (offset of the next unread 32-bit word, used by can_attach,  *)
(* attach, advance and the stale-job tests).                               *)
(***************************************************************************)
EXTENDS Integers, Sequences, FiniteSets, TLC

VARIABLES
  cfg,          \* [W, TotIn, TotOut, Ultra, ScanTh, EmitTh, UnordTh, Prio, Bpw]
  workUnits, outSlots, inSlots, eof, reqClose,
  inputQ,       \* input_q: sequence of [off, size, pins]
  zombies,      \* blocks shifted out of input_q that are still attached somewhere
  tailOffs,     \* tail_offs
  scanQ,        \* scan_q: set of positions [p, o]
  retrQ,        \* retr_q: set of [base, cur, link]  (cur is a position)
  emitQ,        \* emit_q: set of [base, st]          (base = <<p, sub>>)
  reordQ,       \* reord_q: set of [base, st]
  orderQ,       \* order_q: sequence of bases <<p, sub>>
  unord,        \* unord_blk records [base, endp, complete, legit, inQ]
  parseToken, parsingDone, parserPos,
  carry,        \* thread -> what it holds between two critical sections
  srcBuf, sinkQ, acks, written, failed

dvars == <<cfg, workUnits, outSlots, inSlots, eof, reqClose, inputQ, zombies, tailOffs,
           scanQ, retrQ, emitQ, reordQ, orderQ, unord, parseToken, parsingDone, parserPos,
           carry, srcBuf, sinkQ, acks, written, failed>>

None == [k |-> "none"]
NoPin == -1
MORE == 1
OK == 0

MinOf(S) == CHOOSE x \in S : \A y \in S : x <= y
BLt(a, b) == a[1] < b[1] \/ (a[1] = b[1] /\ a[2] < b[2])
MinBase(S) == CHOOSE x \in S : \A y \in S : ~BLt(y.base, x.base)
MinPos(S) == CHOOSE x \in S : \A y \in S : x.p <= y.p
\* retr_q is keyed by the current position; two jobs may tie (a candidate and the master can
\* both stand at the same I/O-block boundary), and then the heap may return either
MinRetrs(S) == {x \in S : \A y \in S : x.cur.p <= y.cur.p}
UnordQ == {u \in unord : u.inQ}
MinU(S) == CHOOSE x \in S : \A y \in S : x.base <= y.base
headOffs == IF inputQ = <<>> THEN tailOffs ELSE inputQ[1].off

---------------------------------------------------------------------------
(* Guards, as can_*() in expand.c.                                         *)
CanAttach(o) == o < tailOffs \/ (eof /\ o = tailOffs)
CanReorder == /\ reordQ # {}
              /\ \/ (orderQ # <<>> /\ ~BLt(Head(orderQ), MinBase(reordQ).base))
                 \/ (orderQ = <<>> /\ parsingDone)
CanParse == ~parsingDone /\ parseToken /\ workUnits > 0 /\ CanAttach(parserPos.o)
CanEmit == /\ emitQ # {}
           /\ \/ outSlots > cfg.EmitTh
              \/ (outSlots > 0 /\ orderQ # <<>> /\ ~BLt(Head(orderQ), MinBase(emitQ).base))
CanRetrieve == \E r \in MinRetrs(retrQ) : CanAttach(r.cur.o)
CanScan == /\ (workUnits > cfg.ScanTh \/ (workUnits > 0 /\ ~parseToken))
           /\ ~cfg.Ultra /\ scanQ # {} /\ CanAttach(MinPos(scanQ).o)
Ready(task) == CASE task = "reorder"  -> CanReorder
                 [] task = "parse"    -> CanParse
                 [] task = "emit"     -> CanEmit
                 [] task = "retrieve" -> CanRetrieve
                 [] task = "scan"     -> CanScan
                 [] OTHER             -> FALSE
Select == LET idx == {i \in 1..Len(cfg.Prio) : Ready(cfg.Prio[i])}
          IN IF idx = {} THEN "null" ELSE cfg.Prio[MinOf(idx)]
Finished == eof /\ parsingDone /\ parseToken /\ workUnits = cfg.W /\ outSlots = cfg.TotOut

---------------------------------------------------------------------------
DInit(c, T) ==
  /\ cfg = c
  /\ workUnits = c.W /\ outSlots = c.TotOut /\ inSlots = c.TotIn /\ eof = FALSE /\ reqClose = FALSE
  /\ inputQ = <<>> /\ zombies = {} /\ tailOffs = 0
  /\ scanQ = {} /\ retrQ = {} /\ emitQ = {} /\ reordQ = {} /\ orderQ = <<>> /\ unord = {}
  /\ parseToken = TRUE /\ parsingDone = FALSE /\ parserPos = [p |-> 0, o |-> 0]
  /\ carry = [t \in T |-> None]
  /\ srcBuf = 0 /\ sinkQ = <<>> /\ acks = 0 /\ written = <<>> /\ failed = FALSE
DReset(c, T) ==
  /\ cfg' = c
  /\ workUnits' = c.W /\ outSlots' = c.TotOut /\ inSlots' = c.TotIn /\ eof' = FALSE /\ reqClose' = FALSE
  /\ inputQ' = <<>> /\ zombies' = {} /\ tailOffs' = 0
  /\ scanQ' = {} /\ retrQ' = {} /\ emitQ' = {} /\ reordQ' = {} /\ orderQ' = <<>> /\ unord' = {}
  /\ parseToken' = TRUE /\ parsingDone' = FALSE /\ parserPos' = [p |-> 0, o |-> 0]
  /\ carry' = [t \in T |-> None]
  /\ srcBuf' = 0 /\ sinkQ' = <<>> /\ acks' = 0 /\ written' = <<>> /\ failed' = FALSE

Carry(t) == IF t \in DOMAIN carry THEN carry[t] ELSE None
SetCarry(t, v) == [carry EXCEPT ![t] = v]

---------------------------------------------------------------------------
(* Input-block bookkeeping.                                                *)
InQ(q, off) == \E i \in DOMAIN q : q[i].off = off
\* attach(): the block that contains word offset o (NoPin at tail_offs)
PinOf(o) == IF o >= tailOffs THEN NoPin
            ELSE LET S == {i \in DOMAIN inputQ : inputQ[i].off <= o /\ o < inputQ[i].off + inputQ[i].size}
                 IN inputQ[CHOOSE i \in S : TRUE].off
Pinned(q, off) == [i \in DOMAIN q |-> IF q[i].off = off THEN [q[i] EXCEPT !.pins = @ + 1] ELSE q[i]]
\* detach(): [q, z, rel] after dropping one pin of block `pin'
AfterDetach(pin) ==
  IF pin = NoPin THEN [q |-> inputQ, z |-> zombies, rel |-> 0]
  ELSE IF InQ(inputQ, pin)
  THEN [q |-> [i \in DOMAIN inputQ |-> IF inputQ[i].off = pin THEN [inputQ[i] EXCEPT !.pins = @ - 1] ELSE inputQ[i]],
        z |-> zombies, rel |-> 0]
  ELSE LET z1 == {IF b.off = pin THEN [b EXCEPT !.pins = @ - 1] ELSE b : b \in zombies}
       IN [q |-> inputQ, z |-> {b \in z1 : b.pins > 0}, rel |-> Cardinality({b \in z1 : b.pins = 0})]
\* number of leading blocks of q that end at or before word offset o
ShiftN(q, o) == CHOOSE n \in 0..Len(q) :
                  /\ \A i \in 1..n : q[i].off + q[i].size <= o
                  /\ (n = Len(q) \/ q[n + 1].off + q[n + 1].size > o)
\* advance(): release the input blocks wholly behind o
AfterAdvance(s, o) ==
  LET n == ShiftN(s.q, o)
      gone == {s.q[i] : i \in 1..n}
  IN [q |-> SubSeq(s.q, n + 1, Len(s.q)),
      z |-> s.z \cup {b \in gone : b.pins > 0},
      rel |-> s.rel + Cardinality({b \in gone : b.pins = 0})]
\* FINISH: release everything
AfterFinish(s) ==
  LET gone == {s.q[i] : i \in 1..Len(s.q)}
  IN [q |-> <<>>, z |-> s.z \cup {b \in gone : b.pins > 0},
      rel |-> s.rel + Cardinality({b \in gone : b.pins = 0})]
HeadOf(q) == IF q = <<>> THEN tailOffs ELSE q[1].off
\* stale jobs dropped by advance()
LiveRetr(rq, ho) == {r \in rq : r.cur.o >= ho}
LiveScan(sq, ho) == {x \in sq : x.o >= ho}

\* apply the input-side result `s' of detach/advance; `pre' releases were already
\* accounted for (trace binding: SrcRel events precede the event that ends the section)
ApplyIn(s, pre) == /\ inputQ' = s.q /\ zombies' = s.z /\ inSlots' = inSlots + s.rel - pre
\* a retrieve job is abandoned: its unord_blk is freed if the parser has already disowned it
\* (it is complete), otherwise it is marked complete so that the parser frees it when it
\* dequeues it
Disown(un, jobs) ==
  LET mine(u) == \E r \in jobs : r.link /\ r.base = u.base
  IN {IF mine(u) THEN [u EXCEPT !.complete = TRUE, !.legit = FALSE] ELSE u :
        u \in {x \in un : ~(mine(x) /\ x.complete)}}
\* advance(pos) with queues rq, sq, work units wu and unord records un (after the caller's
\* own changes)
Advance(s0, pos, rq, sq, wu, pre, un) ==
  LET s == AfterAdvance(s0, pos.o)
      ho == HeadOf(s.q)
  IN /\ ApplyIn(s, pre)
     /\ parserPos' = pos
     /\ retrQ' = LiveRetr(rq, ho) /\ scanQ' = LiveScan(sq, ho)
     /\ workUnits' = wu + Cardinality(rq) - Cardinality(LiveRetr(rq, ho))
     /\ unord' = Disown(un, rq \ LiveRetr(rq, ho))
NoAdvance(s, rq, sq, wu, pre, un) ==
  /\ ApplyIn(s, pre) /\ parserPos' = parserPos /\ retrQ' = rq /\ scanQ' = sq /\ workUnits' = wu
  /\ unord' = un

---------------------------------------------------------------------------
\* ---- reader ----
DSrcTake ==
  /\ inSlots > 0 /\ srcBuf = 0 /\ ~reqClose
  /\ inSlots' = inSlots - 1 /\ srcBuf' = 1
  /\ UNCHANGED <<cfg, workUnits, outSlots, eof, reqClose, inputQ, zombies, tailOffs, scanQ, retrQ, emitQ,
                 reordQ, orderQ, unord, parseToken, parsingDone, parserPos, carry, sinkQ, acks, written, failed>>
\* buffer given back unused: empty read, or delivered after FINISH
DSrcEmpty ==
  /\ srcBuf = 1
  /\ inSlots' = inSlots + 1 /\ srcBuf' = 0
  /\ UNCHANGED <<cfg, workUnits, outSlots, eof, reqClose, inputQ, zombies, tailOffs, scanQ, retrQ, emitQ,
                 reordQ, orderQ, unord, parseToken, parsingDone, parserPos, carry, sinkQ, acks, written, failed>>
DAvail(words) ==
  /\ srcBuf = 1 /\ ~parsingDone /\ ~eof /\ words > 0
  /\ inputQ' = Append(inputQ, [off |-> tailOffs, size |-> words, pins |-> 0])
  /\ scanQ' = scanQ \cup {[p |-> tailOffs * cfg.Bpw, o |-> tailOffs]}
  /\ tailOffs' = tailOffs + words /\ srcBuf' = 0
  /\ UNCHANGED <<cfg, workUnits, outSlots, inSlots, eof, reqClose, zombies, retrQ, emitQ, reordQ, orderQ,
                 unord, parseToken, parsingDone, parserPos, carry, sinkQ, acks, written, failed>>
\* on_input_avail() after FINISH: the block is dropped (the release follows outside the monitor)
DAvailDrop ==
  /\ srcBuf = 1 /\ parsingDone
  /\ UNCHANGED dvars
DEof ==
  /\ srcBuf = 0 /\ ~eof /\ eof' = TRUE
  /\ UNCHANGED <<cfg, workUnits, outSlots, inSlots, reqClose, inputQ, zombies, tailOffs, scanQ, retrQ, emitQ,
                 reordQ, orderQ, unord, parseToken, parsingDone, parserPos, carry, srcBuf, sinkQ, acks, written, failed>>

\* ---- do_parse ----
DParseBegin(t) ==
  /\ Carry(t) = None /\ ~parsingDone /\ parseToken /\ workUnits > 0
  /\ CanAttach(parserPos.o) /\ parserPos.o >= headOffs
  /\ LET pin == PinOf(parserPos.o) IN
     /\ inputQ' = Pinned(inputQ, pin)
     /\ carry' = SetCarry(t, [k |-> "parse", pin |-> pin])
  /\ parseToken' = FALSE /\ workUnits' = workUnits - 1
  /\ UNCHANGED <<cfg, outSlots, inSlots, eof, reqClose, zombies, tailOffs, scanQ, retrQ, emitQ, reordQ, orderQ,
                 unord, parsingDone, parserPos, srcBuf, sinkQ, acks, written, failed>>
\* parse() == MORE: ran out of the attached block
DParseMore(t, pos, pre) ==
  /\ Carry(t).k = "parse"
  /\ Advance(AfterDetach(Carry(t).pin), pos, retrQ, scanQ, workUnits + 1, pre, unord)
  /\ parseToken' = TRUE /\ carry' = SetCarry(t, None)
  /\ UNCHANGED <<cfg, outSlots, eof, reqClose, tailOffs, emitQ, reordQ, orderQ, parsingDone,
                 srcBuf, sinkQ, acks, written, failed>>
\* parse() == FINISH: end of the last stream (pos is parser_bs after the garbage adjustment)
DParseFinish(t, pos, pre) ==
  /\ Carry(t).k = "parse"
  /\ LET s == AfterFinish(AfterAdvance(AfterDetach(Carry(t).pin), pos.o)) IN ApplyIn(s, pre)
  /\ parserPos' = pos
  /\ reqClose' = TRUE /\ parseToken' = TRUE /\ parsingDone' = TRUE
  /\ workUnits' = workUnits + Cardinality(retrQ) + 1   \* every dropped job returns its unit
  /\ retrQ' = {} /\ scanQ' = {}
  /\ unord' = {[u EXCEPT !.inQ = FALSE, !.complete = TRUE, !.legit = FALSE] :
                 u \in {x \in Disown(unord, retrQ) : ~(x.inQ /\ x.complete)}}
  /\ carry' = SetCarry(t, None)
  /\ UNCHANGED <<cfg, outSlots, eof, tailOffs, emitQ, reordQ, orderQ, srcBuf, sinkQ, acks, written, failed>>
\* parse() reported a format error: failf()
DParseErr(t) ==
  /\ Carry(t).k = "parse" /\ failed' = TRUE
  /\ UNCHANGED <<cfg, workUnits, outSlots, inSlots, eof, reqClose, inputQ, zombies, tailOffs, scanQ, retrQ, emitQ,
                 reordQ, orderQ, unord, parseToken, parsingDone, parserPos, carry, srcBuf, sinkQ, acks, written>>
\* parse() == OK: a block header ends at pos
StaleU(p) == {u \in UnordQ : u.base < p}
AfterStale(p) == {IF u \in StaleU(p) THEN [u EXCEPT !.inQ = FALSE, !.complete = TRUE, !.legit = FALSE] ELSE u :
                    u \in {x \in unord : ~(x \in StaleU(p) /\ x.complete)}}
HitU(p) == {u \in UnordQ : u.base = p}
DParseBlock(t, pos, pre) ==
  /\ Carry(t).k = "parse"
  /\ orderQ' = Append(orderQ, <<pos.p, 0>>)
  /\ LET s0 == AfterAdvance(AfterDetach(Carry(t).pin), pos.o)      \* advance(detach(...))
         un == AfterStale(pos.p)
     IN IF HitU(pos.p) # {}
        THEN LET u == CHOOSE u \in HitU(pos.p) : TRUE IN            \* the scanner was here first
             /\ IF u.complete
                THEN /\ parseToken' = TRUE
                     /\ Advance(s0, u.endp, retrQ, scanQ, workUnits + 1, pre, un \ {u})
                ELSE /\ parseToken' = FALSE
                     /\ Advance(s0, u.endp, retrQ, scanQ, workUnits + 1, pre,
                                (un \ {u}) \cup {[u EXCEPT !.inQ = FALSE, !.complete = TRUE, !.legit = TRUE]})
        ELSE /\ Advance(s0, pos, retrQ \cup {[base |-> pos.p, cur |-> pos, link |-> FALSE]}, scanQ, workUnits, pre, un)
             /\ parseToken' = FALSE
  /\ carry' = SetCarry(t, None)
  /\ UNCHANGED <<cfg, outSlots, eof, reqClose, tailOffs, emitQ, reordQ, parsingDone, srcBuf, sinkQ, acks, written, failed>>

\* ---- do_retrieve ----
DRetrBegin(t, rb) ==
  /\ Carry(t) = None /\ rb \in MinRetrs(retrQ) /\ ~parsingDone
  /\ LET pin == PinOf(rb.cur.o)
     IN /\ CanAttach(rb.cur.o) /\ rb.cur.o >= headOffs     \* assert in can_attach()
        /\ retrQ' = retrQ \ {rb}
        /\ inputQ' = Pinned(inputQ, pin)
        /\ carry' = SetCarry(t, [k |-> "retr", rb |-> rb, pin |-> pin])
  /\ UNCHANGED <<cfg, workUnits, outSlots, inSlots, eof, reqClose, zombies, tailOffs, scanQ, emitQ, reordQ, orderQ,
                 unord, parseToken, parsingDone, parserPos, srcBuf, sinkQ, acks, written, failed>>
Lk(rb) == CHOOSE u \in unord : u.base = rb.base
RetrKind(t) == LET rb == Carry(t).rb IN
               IF parsingDone THEN "dead"
               ELSE IF rb.link /\ Lk(rb).complete /\ ~Lk(rb).legit THEN "redundant"
               ELSE "live"
RetrMaster(t) == LET rb == Carry(t).rb IN ~rb.link \/ Lk(rb).complete
\* retrieve() returned rv with the bit stream at pos
DRetrEnd(t, rv, pos, pre) ==
  /\ Carry(t).k = "retr"
  /\ LET rb == Carry(t).rb
         s0 == AfterDetach(Carry(t).pin)
     IN CASE RetrKind(t) = "dead" ->                      \* FINISH happened meanwhile
               /\ NoAdvance(s0, retrQ, scanQ, workUnits + 1, pre, IF rb.link THEN unord \ {Lk(rb)} ELSE unord)
               /\ carry' = SetCarry(t, None)
               /\ UNCHANGED parseToken
          [] RetrKind(t) = "redundant" ->                 \* proven not legitimate
               /\ NoAdvance(s0, retrQ, scanQ, workUnits + 1, pre, unord \ {Lk(rb)})
               /\ carry' = SetCarry(t, None)
               /\ UNCHANGED parseToken
          [] OTHER ->
               LET master == RetrMaster(t)
                   \* a job the master has overtaken is dropped, not re-queued
                   over == rv = MORE /\ ~master /\ pos.o < HeadOf(s0.q)
                   rq1 == IF rv = MORE /\ ~over THEN retrQ \cup {[rb EXCEPT !.cur = pos]} ELSE retrQ
                   \* unord records after this job's own update
                   un1 == IF rv = MORE
                          THEN (IF master THEN unord
                                ELSE IF over THEN Disown((unord \ {Lk(rb)}) \cup {[Lk(rb) EXCEPT !.endp = pos]}, {rb})
                                ELSE (unord \ {Lk(rb)}) \cup {[Lk(rb) EXCEPT !.endp = pos]})
                          ELSE IF rb.link /\ ~Lk(rb).complete
                          THEN (unord \ {Lk(rb)}) \cup {[Lk(rb) EXCEPT !.complete = TRUE, !.endp = pos]}
                          ELSE (IF rb.link THEN unord \ {Lk(rb)} ELSE unord)
               IN /\ IF master THEN Advance(s0, pos, rq1, scanQ, workUnits, pre, un1)
                               ELSE NoAdvance(s0, rq1, scanQ, IF over THEN workUnits + 1 ELSE workUnits, pre, un1)
                  /\ IF rv = MORE
                     THEN /\ carry' = SetCarry(t, None) /\ UNCHANGED parseToken
                     ELSE /\ (IF rb.link /\ ~Lk(rb).complete THEN UNCHANGED parseToken ELSE parseToken' = TRUE)
                          /\ carry' = SetCarry(t, [k |-> "decode", base |-> rb.base, st |-> rv])
  /\ UNCHANGED <<cfg, outSlots, eof, reqClose, tailOffs, emitQ, reordQ, orderQ, parsingDone,
                 srcBuf, sinkQ, acks, written, failed>>
DRetrPush(t) ==
  /\ Carry(t).k = "decode"
  /\ emitQ' = emitQ \cup {[base |-> <<Carry(t).base, 0>>, st |-> Carry(t).st]}
  /\ carry' = SetCarry(t, None)
  /\ UNCHANGED <<cfg, workUnits, outSlots, inSlots, eof, reqClose, inputQ, zombies, tailOffs, scanQ, retrQ, reordQ,
                 orderQ, unord, parseToken, parsingDone, parserPos, srcBuf, sinkQ, acks, written, failed>>

\* ---- do_emit ----
DEmitBegin(t) ==
  /\ Carry(t) = None /\ emitQ # {} /\ outSlots > 0
  /\ LET eb == MinBase(emitQ) IN
     /\ emitQ' = emitQ \ {eb}
     /\ carry' = SetCarry(t, [k |-> "emit", eb |-> eb])
  /\ outSlots' = outSlots - 1
  /\ UNCHANGED <<cfg, workUnits, inSlots, eof, reqClose, inputQ, zombies, tailOffs, scanQ, retrQ, reordQ, orderQ,
                 unord, parseToken, parsingDone, parserPos, srcBuf, sinkQ, acks, written, failed>>
\* one output buffer produced with status st (MORE: the block continues)
DEmitEnd(t, st) ==
  /\ Carry(t).k = "emit"
  /\ LET eb == Carry(t).eb IN
     /\ (eb.st # OK => st = eb.st)                 \* a failed retrieval is passed through
     /\ reordQ' = reordQ \cup {[base |-> eb.base, st |-> st]}
     /\ IF st = MORE
        THEN /\ emitQ' = emitQ \cup {[eb EXCEPT !.base = <<eb.base[1], eb.base[2] + 1>>]}
             /\ UNCHANGED workUnits
        ELSE /\ UNCHANGED emitQ /\ workUnits' = workUnits + 1
  /\ carry' = SetCarry(t, None)
  /\ UNCHANGED <<cfg, outSlots, inSlots, eof, reqClose, inputQ, zombies, tailOffs, scanQ, retrQ, orderQ, unord,
                 parseToken, parsingDone, parserPos, srcBuf, sinkQ, acks, written, failed>>

\* ---- do_reorder (one critical section; fin = status after the size and CRC checks) ----
ReorderBogus == orderQ = <<>> \/ BLt(MinBase(reordQ).base, Head(orderQ))
DReorder(t, fin) ==
  /\ Carry(t) = None /\ reordQ # {}
  /\ LET ob == MinBase(reordQ) IN
     IF ReorderBogus
     THEN /\ reordQ' = reordQ \ {ob} /\ outSlots' = outSlots + 1
          /\ UNCHANGED <<orderQ, sinkQ, failed>>
     ELSE /\ ob.base = Head(orderQ)               \* only the block the parser confirmed next
          /\ (ob.st = MORE => fin # OK) /\ (ob.st > MORE => fin > MORE)
          /\ IF fin = MORE
             THEN /\ reordQ' = reordQ \ {ob}
                  /\ orderQ' = <<<<ob.base[1], ob.base[2] + 1>>>> \o Tail(orderQ)
                  /\ sinkQ' = Append(sinkQ, ob.base) /\ UNCHANGED <<outSlots, failed>>
             ELSE IF fin = OK
             THEN /\ ob.st = OK
                  /\ reordQ' = reordQ \ {ob} /\ orderQ' = Tail(orderQ)
                  /\ sinkQ' = Append(sinkQ, ob.base) /\ UNCHANGED <<outSlots, failed>>
             ELSE /\ failed' = TRUE /\ UNCHANGED <<reordQ, orderQ, sinkQ, outSlots>>
  /\ UNCHANGED <<cfg, workUnits, inSlots, eof, reqClose, inputQ, zombies, tailOffs, scanQ, retrQ, emitQ, unord,
                 parseToken, parsingDone, parserPos, carry, srcBuf, acks, written>>

\* ---- do_scan ----
DScanBegin(t) ==
  /\ Carry(t) = None /\ scanQ # {} /\ workUnits > 0 /\ ~parsingDone
  /\ LET x == MinPos(scanQ)
         pin == PinOf(x.o)
     IN /\ CanAttach(x.o) /\ x.o >= headOffs /\ x.o < tailOffs
        /\ scanQ' = scanQ \ {x}
        /\ inputQ' = Pinned(inputQ, pin)
        /\ carry' = SetCarry(t, [k |-> "scan", x |-> x, pin |-> pin])
  /\ workUnits' = workUnits - 1
  /\ UNCHANGED <<cfg, outSlots, inSlots, eof, reqClose, zombies, tailOffs, retrQ, emitQ, reordQ, orderQ, unord,
                 parseToken, parsingDone, parserPos, srcBuf, sinkQ, acks, written, failed>>
\* scan() returned: found = a header pattern ends at pos; atEnd = the block is exhausted
DScanEnd(t, found, pos, atEnd, pre) ==
  /\ Carry(t).k = "scan"
  /\ LET s0 == AfterDetach(Carry(t).pin) IN
     IF ~found \/ parsingDone
     THEN NoAdvance(s0, retrQ, scanQ, workUnits + 1, pre, unord)
     ELSE LET requeue == ~atEnd /\ pos.o >= headOffs
              sq == IF requeue THEN scanQ \cup {pos} ELSE scanQ
          IN IF pos.p <= parserPos.p
             THEN NoAdvance(s0, retrQ, sq, workUnits + 1, pre, unord)                     \* known
             ELSE NoAdvance(s0, retrQ \cup {[base |-> pos.p, cur |-> pos, link |-> TRUE]}, sq, workUnits, pre,
                            unord \cup {[base |-> pos.p, endp |-> pos, complete |-> FALSE,
                                         legit |-> FALSE, inQ |-> TRUE]})
  /\ carry' = SetCarry(t, None)
  /\ UNCHANGED <<cfg, outSlots, eof, reqClose, tailOffs, emitQ, reordQ, orderQ, parseToken, parsingDone,
                 srcBuf, sinkQ, acks, written, failed>>

\* ---- writer ----
DSinkPop ==
  /\ sinkQ # <<>> /\ acks = 0
  /\ written' = Append(written, Head(sinkQ)) /\ sinkQ' = Tail(sinkQ) /\ acks' = 1
  /\ UNCHANGED <<cfg, workUnits, outSlots, inSlots, eof, reqClose, inputQ, zombies, tailOffs, scanQ, retrQ, emitQ,
                 reordQ, orderQ, unord, parseToken, parsingDone, parserPos, carry, srcBuf, failed>>
DWritten ==
  /\ acks = 1 /\ outSlots' = outSlots + 1 /\ acks' = 0
  /\ UNCHANGED <<cfg, workUnits, inSlots, eof, reqClose, inputQ, zombies, tailOffs, scanQ, retrQ, emitQ, reordQ,
                 orderQ, unord, parseToken, parsingDone, parserPos, carry, srcBuf, sinkQ, written, failed>>
\* source_close(): called inside the FINISH critical section (DParseFinish sets reqClose as
\* well; in recorded traces the call is visible on its own, a moment before ParseFinish)
DSrcClose(t) ==
  /\ Carry(t).k = "parse" /\ reqClose' = TRUE
  /\ UNCHANGED <<cfg, workUnits, outSlots, inSlots, eof, inputQ, zombies, tailOffs, scanQ, retrQ, emitQ, reordQ,
                 orderQ, unord, parseToken, parsingDone, parserPos, carry, srcBuf, sinkQ, acks, written, failed>>
\* the reader notices the request
DSrcStop == reqClose /\ srcBuf = 0 /\ UNCHANGED dvars

---------------------------------------------------------------------------
(* Invariants (property layer).                                            *)
Held(kinds) == Cardinality({t \in DOMAIN carry : carry[t].k \in kinds})
Bounds == workUnits \in 0..cfg.W /\ outSlots \in 0..cfg.TotOut
\* fixed-capacity containers as sized by init() / init_io()
Capacity == /\ Len(inputQ) <= cfg.TotIn /\ Cardinality(scanQ) <= cfg.TotIn
            /\ Cardinality(retrQ) <= cfg.W /\ Cardinality(emitQ) <= cfg.W
            /\ Cardinality(UnordQ) <= (IF cfg.W + cfg.TotOut > cfg.UnordTh THEN cfg.W + cfg.TotOut - cfg.UnordTh ELSE 0)
            /\ Len(orderQ) <= cfg.W + cfg.TotOut
            /\ Cardinality(reordQ) <= cfg.TotOut /\ Len(sinkQ) <= cfg.TotOut
ConserveWork == workUnits + Cardinality(retrQ) + Cardinality(emitQ)
                  + Held({"parse", "scan", "retr", "decode", "emit"}) = cfg.W
ConserveOut == outSlots + Held({"emit"}) + Cardinality(reordQ) + Len(sinkQ) + acks = cfg.TotOut
\* `early' = releases already applied ahead of the event that ends their critical section
ConserveIn(early) == inSlots + Len(inputQ) + Cardinality(zombies) + srcBuf - early = cfg.TotIn
\* no queued job points at input that has been released (assert in can_attach)
AttachOK == /\ \A r \in retrQ : r.cur.o >= headOffs
            /\ \A x \in scanQ : x.o >= headOffs
\* output buffers reach the writer in strictly increasing position order
Seq2(a, b) == a \o b
OutOrdered == LET out == Seq2(written, sinkQ) IN \A i \in 1..(Len(out) - 1) : BLt(out[i], out[i + 1])
\* state in which uninit() may run
Quiescent == /\ eof /\ parsingDone /\ parseToken /\ workUnits = cfg.W /\ outSlots = cfg.TotOut
             /\ inputQ = <<>> /\ zombies = {} /\ scanQ = {} /\ retrQ = {} /\ emitQ = {} /\ reordQ = {}
             /\ orderQ = <<>> /\ UnordQ = {} /\ sinkQ = <<>> /\ acks = 0
             /\ \A t \in DOMAIN carry : carry[t] = None

\* every unord_blk is reachable: it sits in unord_q or a live retrieve job points at it
\* (otherwise nobody can ever free it)
Jobs == retrQ \cup {carry[t].rb : t \in {x \in DOMAIN carry : carry[x].k = "retr"}}
NoLeak == \A u \in unord : u.inQ \/ \E r \in Jobs : r.link /\ r.base = u.base

DataInv == Bounds /\ Capacity /\ ConserveWork /\ ConserveOut /\ AttachOK /\ OutOrdered /\ NoLeak
=============================================================================
