------------------------------- MODULE Queues -------------------------------
(***************************************************************************)
(* The two fixed-capacity containers every pipeline queue of lbzip2 is     *)
(* made of (process.h / process.c):                                        *)
(*   deque   a ring buffer (root, size, modulus, head) with push / pop /   *)
(*           shift / unshift / dq_get / dq_set; the index arithmetic uses  *)
(*           the unsigned wrap-around trick min(x, x - modulus)            *)
(*   pqueue  a binary heap ordered by stream position, enqueue = up_heap,  *)
(*           dequeue = down_heap                                           *)
(* Both are transcribed statement by statement and run next to their       *)
(* abstract meaning - a sequence, a bag - for every sequence of operations *)
(* up to a bound and every capacity in Caps.  TLC checks after each        *)
(* operation that the concrete state represents the abstract one and that  *)
(* every returned value is the abstract one (for the heap: a minimal       *)
(* element).  tools/inproc.py replays every explored operation sequence    *)
(* through the real macros and functions of the working tree.              *)
(* Unsigned arithmetic is modelled modulo 2^W for a small W; the argument  *)
(* only needs modulus <= 2^(W-1), which holds for W = 32 and any capacity  *)
(* lbzip2 configures.                                                      *)
(***************************************************************************)
EXTENDS Naturals, Sequences, FiniteSets, TLC, Json

CONSTANTS Kind,       \* "deque" | "pqueue"
          Caps,       \* capacities to explore
          MaxOps,     \* length of operation sequences
          Vals        \* values stored (deque) / priorities (pqueue; equal priorities allowed)

W == 8
M == 2 ^ W
U(x) == x % M                                  \* unsigned arithmetic (arguments are kept non-negative by adding M)
Min(a, b) == IF a < b THEN a ELSE b

VARIABLES cap, abs,       \* capacity; abstract contents: a sequence (deque) or a sequence kept as a bag (pqueue)
          arr, size, head,\* the concrete representation (arr: 0-based function)
          hist,           \* operations performed so far, with what each returned
          ok              \* every operation so far returned the abstract value
vars == <<cap, abs, arr, size, head, hist, ok>>

Init == /\ cap \in Caps /\ abs = <<>> /\ arr = [i \in 0..(cap - 1) |-> 0] /\ size = 0 /\ head = 0
        /\ hist = <<>> /\ ok = TRUE

\* ------------------------------------------------------------------ deque (process.h)
Idx(h, k, m) == Min(U(h + k), U(h + k + M - m))         \* min(head + k, head + k - modulus)
Push(e) == /\ size < cap
           /\ arr' = [arr EXCEPT ![Idx(head, size + 1, cap)] = e] /\ size' = size + 1 /\ UNCHANGED head
           /\ abs' = Append(abs, e) /\ hist' = Append(hist, [op |-> "push", arg |-> e, ret |-> e]) /\ UNCHANGED ok
Pop == /\ size > 0
       /\ LET r == arr[Idx(head, size, cap)] IN      \* size is decremented first: index head + size' + 1
          /\ size' = size - 1 /\ UNCHANGED <<arr, head>>
          /\ abs' = SubSeq(abs, 1, Len(abs) - 1) /\ hist' = Append(hist, [op |-> "pop", arg |-> 0, ret |-> r])
          /\ ok' = (ok /\ r = abs[Len(abs)])
Shift == /\ size > 0
         /\ LET h == Idx(head, 1, cap) IN
            /\ head' = h /\ size' = size - 1 /\ UNCHANGED arr
            /\ abs' = Tail(abs) /\ hist' = Append(hist, [op |-> "shift", arg |-> 0, ret |-> arr[h]])
            /\ ok' = (ok /\ arr[h] = Head(abs))
Unshift(e) == /\ size < cap
              /\ arr' = [arr EXCEPT ![head] = e] /\ size' = size + 1
              /\ head' = Min(U(head + M - 1), U(head + M - 1 + cap))     \* min(head - 1, head - 1 + modulus)
              /\ abs' = <<e>> \o abs /\ hist' = Append(hist, [op |-> "unshift", arg |-> e, ret |-> e]) /\ UNCHANGED ok
Get(i) == /\ i < size
          /\ LET r == arr[Idx(head, i + 1, cap)] IN
             /\ hist' = Append(hist, [op |-> "get", arg |-> i, ret |-> r]) /\ ok' = (ok /\ r = abs[i + 1])
          /\ UNCHANGED <<arr, size, head, abs>>
DequeNext == \/ \E e \in Vals : Push(e) \/ Unshift(e)
             \/ Pop \/ Shift \/ \E i \in 0..(cap - 1) : Get(i)
DequeRep == /\ size = Len(abs) /\ head < cap
            /\ \A i \in 1..size : arr[Idx(head, i, cap)] = abs[i]

\* ------------------------------------------------------------------ pqueue (process.c: up_heap, down_heap)
Parent(i) == (i - 1) \div 2
Left(i) == 2 * i + 1
\* up_heap(root, n): the new element sits at index n
RECURSIVE SiftUp(_, _, _)
SiftUp(a, j, el) == IF j > 0 /\ el < a[Parent(j)] THEN SiftUp([a EXCEPT ![j] = a[Parent(j)]], Parent(j), el)
                    ELSE [a EXCEPT ![j] = el]
UpHeap(a, n) == IF n = 0 THEN a ELSE IF a[n] < a[Parent(n)] THEN SiftUp(a, n, a[n]) ELSE a
\* down_heap(root, n): n = new size; the last element (index n) moves to the hole at the root, the old root to index n
RECURSIVE SiftDown(_, _, _, _)
SiftDown(a, j, el, n) ==
  IF Left(j) < n
  THEN LET c0 == Left(j)
           c == IF c0 + 1 < n /\ a[c0 + 1] < a[c0] THEN c0 + 1 ELSE c0
       IN IF el <= a[c] THEN [a EXCEPT ![j] = el] ELSE SiftDown([a EXCEPT ![j] = a[c]], c, el, n)
  ELSE [a EXCEPT ![j] = el]
DownHeap(a, n) == IF n = 0 THEN a ELSE SiftDown([a EXCEPT ![n] = a[0]], 0, a[n], n)

MinOf(s) == CHOOSE x \in {s[i] : i \in 1..Len(s)} : \A i \in 1..Len(s) : x <= s[i]
RECURSIVE RemoveOne(_, _)
RemoveOne(s, x) == IF Head(s) = x THEN Tail(s) ELSE <<Head(s)>> \o RemoveOne(Tail(s), x)
Enqueue(e) == /\ size < cap
              /\ arr' = UpHeap([arr EXCEPT ![size] = e], size) /\ size' = size + 1 /\ UNCHANGED head
              /\ abs' = Append(abs, e) /\ hist' = Append(hist, [op |-> "enqueue", arg |-> e, ret |-> e]) /\ UNCHANGED ok
Dequeue == /\ size > 0
           /\ LET a2 == DownHeap(arr, size - 1)
                  r == a2[size - 1]
              IN /\ arr' = a2 /\ size' = size - 1 /\ UNCHANGED head
                 /\ hist' = Append(hist, [op |-> "dequeue", arg |-> 0, ret |-> r])
                 /\ ok' = (ok /\ r = MinOf(abs)) /\ abs' = RemoveOne(abs, MinOf(abs))
Peek == /\ size > 0 /\ hist' = Append(hist, [op |-> "peek", arg |-> 0, ret |-> arr[0]]) /\ ok' = (ok /\ arr[0] = MinOf(abs))
        /\ UNCHANGED <<arr, size, head, abs>>
PQNext == (\E e \in Vals : Enqueue(e)) \/ Dequeue \/ Peek
Bag(s) == [v \in Vals |-> Cardinality({i \in 1..Len(s) : s[i] = v})]
PQRep == /\ size = Len(abs)
         /\ Bag([i \in 1..size |-> arr[i - 1]]) = Bag(abs)
         /\ \A i \in 1..(size - 1) : arr[Parent(i)] <= arr[i]                  \* heap order

Next == /\ Len(hist) < MaxOps
        /\ (IF Kind = "deque" THEN DequeNext ELSE PQNext)
        /\ UNCHANGED cap
Spec == Init /\ [][Next]_vars

Represents == IF Kind = "deque" THEN DequeRep ELSE PQRep
ReturnsRight == ok
Export == (Len(hist) = MaxOps) => PrintT(<<"BEHAVIOUR", ToJson([kind |-> Kind, cap |-> cap, ops |-> hist])>>)
=============================================================================
