------------------------------- MODULE Imtf -------------------------------
(* The "sliding lists" inverse move-to-front of decode.c (mtf_one(), and its set-up in retrieve()).

   The decoder keeps the MTF list of N = RW * NR symbols as NR rows of RW cells inside one memory
   pool `imtf_slide` of SL cells; `imtf_row[k]` points at the first cell of row k.  A front move from
   an index below RW only shifts inside row 0 (fast path).  A front move from a larger index shifts
   the part of its own row, then *slides every row below it down by one cell* (each takes the last
   symbol of the row before it as its new first one), so row 0 creeps towards the bottom of the pool;
   when it has reached it, all rows are copied back to the top of the pool (rebuild) before the move.

   State here: for each row its offset in the pool and its RW cells (memory outside the rows is dead,
   which is exactly what NoOverlap / InPool make true), plus the ghost `list` = the naive MTF list.
   One action per call of mtf_one(c).  Checked by TLC for every sequence of calls (small RW, NR, SL):
     Represents : reading the rows in order gives `list`, and the value returned is list[c] (naive MTF)
     InPool     : every row lies inside the pool (the assert in the rebuild loop, and no write below
                  the pool when a row pointer is decremented)
     NoOverlap  : row k ends at or before row k+1 begins (so the backward copy of the rebuild never
                  overwrites cells it has not read, and cells outside rows are never read)
     RebuildDst : the rebuild copies every row to an address not below its source
   With the real constants (16, 16, 8192) the spec is also run as a generator: seeded random call
   sequences long enough for several rebuilds; each behaviour carries, per call, the value returned
   and the offset of row 0, and is replayed through the real mtf_one() (harness/replay_imtf.c). *)
EXTENDS Naturals, Sequences, TLC, Json, SequencesExt

CONSTANTS RW,        \* ROW_WIDTH
          NR,        \* NUM_ROWS
          SL,        \* SLIDE_LENGTH
          MaxOps,    \* length of a behaviour
          Indices,   \* the indices c a call may use (subset of 1..N-1: index 0 is coded as a run, never moved;
                     \* mtf_one(0) aborts by construction)
          Stim       \* <<>> = every choice from Indices; otherwise the one call sequence to follow

N == RW * NR
Base == SL - N       \* CMAP_BASE

VARIABLES off,       \* off[k]  = imtf_row[k] - imtf_slide                 (k in 0..NR-1)
          cell,      \* cell[k] = the RW cells of row k, as a sequence
          list,      \* ghost: the naive MTF list (sequence of N symbols)
          hist,      \* ghost: per call [c, ret, off0 after the call, rebuilt]
          ok         \* ghost: every returned value was the naive one

vars == <<off, cell, list, hist, ok>>

Rows == 0..(NR - 1)

(* retrieve(): imtf_slide[CMAP_BASE + i] = i-th used symbol; imtf_row[i] = imtf_slide + CMAP_BASE + i * RW.
   Symbols are abstract here: the i-th list element is i (0-based). *)
Init == /\ off  = [k \in Rows |-> Base + k * RW]
        /\ cell = [k \in Rows |-> [i \in 1..RW |-> k * RW + (i - 1)]]
        /\ list = [i \in 1..N |-> i - 1]
        /\ hist = <<>>
        /\ ok = TRUE

NaiveMove(l, c) == <<l[c + 1]>> \o SubSeq(l, 1, c) \o SubSeq(l, c + 2, Len(l))

(* fast path: c < RW.  pp = imtf_row[0]; c = pp[nn]; pp[n] = pp[n-1] for n = nn..1; *pp = c *)
Fast(c) ==
  LET r == cell[0]
      x == r[c + 1]
  IN  /\ cell' = [cell EXCEPT ![0] = <<x>> \o SubSeq(r, 1, c) \o SubSeq(r, c + 2, RW)]
      /\ off' = off
      /\ list' = NaiveMove(list, c)
      /\ ok' = (ok /\ x = list[c + 1])
      /\ hist' = Append(hist, [c |-> c, ret |-> x, off0 |-> off[0], rebuilt |-> FALSE])

(* the rebuild: rows copied, top row first, to the top of the pool *)
RebuiltOff == [k \in Rows |-> SL - (NR - k) * RW]

(* general path: c >= RW *)
General(c) ==
  LET rebuild == (off[0] = 0)
      o1  == IF rebuild THEN RebuiltOff ELSE off
      ln  == c \div RW                       \* lno
      pos == c - ln * RW                     \* c % ROW_WIDTH
      r   == cell[ln]
      x   == r[pos + 1]
      \* own row: cells 0..pos-1 move up by one; cell 0 then receives the last symbol of the row below
      own == <<cell[ln - 1][RW]>> \o SubSeq(r, 1, pos) \o SubSeq(r, pos + 2, RW)
      \* rows k < ln slide down by one cell: new first cell = last symbol of row k-1 (or x for row 0)
      slid(k) == <<IF k = 0 THEN x ELSE cell[k - 1][RW]>> \o SubSeq(cell[k], 1, RW - 1)
  IN  /\ cell' = [k \in Rows |-> IF k < ln THEN slid(k) ELSE IF k = ln THEN own ELSE cell[k]]
      /\ off'  = [k \in Rows |-> IF k < ln THEN o1[k] - 1 ELSE o1[k]]
      /\ list' = NaiveMove(list, c)
      /\ ok' = (ok /\ x = list[c + 1])
      /\ hist' = Append(hist, [c |-> c, ret |-> x, off0 |-> o1[0] - 1, rebuilt |-> rebuild])

Call(c) == IF c < RW THEN Fast(c) ELSE General(c)

Next == /\ Len(hist) < MaxOps
        /\ IF Stim = <<>> THEN \E c \in Indices : Call(c)
                          ELSE Len(hist) < Len(Stim) /\ Call(Stim[Len(hist) + 1])

Spec == Init /\ [][Next]_vars

-----------------------------------------------------------------------------
Flatten == FoldLeft(LAMBDA acc, k : acc \o cell[k], <<>>, [i \in 1..NR |-> i - 1])

Represents == ok /\ Flatten = list
InPool     == \A k \in Rows : off[k] >= 0 /\ off[k] + RW <= SL
NoOverlap  == \A k \in Rows : k + 1 < NR => off[k] + RW <= off[k + 1]
RebuildDst == \A k \in Rows : off[k] <= RebuiltOff[k]
(* the list stays a permutation of the symbols *)
Permutation == \A s \in 0..(N - 1) : \E i \in 1..N : list[i] = s

Export == (Len(hist) = MaxOps) => PrintT(<<"BEHAVIOUR", ToJson([ops |-> hist])>>)
=============================================================================
