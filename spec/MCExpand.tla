------------------------------ MODULE MCExpand ------------------------------
(***************************************************************************)
(* Model-checking instance of Expand: the monitor of process.c, the reader *)
(* and the writer thread, over an abstract input SHAPE.                    *)
(*                                                                         *)
(* Positions are cell indices (p = o).  An I/O block is G cells, the file  *)
(* T cells.  TB is the true chain of blocks [base, end, outs, kind, scan]: *)
(* base = position right after the block header, end = where the next      *)
(* header (or the trailer) has been read, outs = output buffers the block  *)
(* emits, kind = "ok" | "rerr" (retrieve fails) | "crc" (CRC mismatch      *)
(* found at reorder), scan = the header lies inside one I/O block so the   *)
(* scanner can see it.  Fin = [pos, ok]: where parse() reports FINISH, or  *)
(* a fatal header / stream-CRC / EOF error.  Cands = spurious candidates   *)
(* [base, end, outs, ok]: places where the 48-bit pattern occurs without   *)
(* being a block of the sequential decoding (end > T: runs into EOF).      *)
(***************************************************************************)
EXTENDS Expand

CONSTANTS W, TotIn, TotOut, Ultra, ScanTh, EmitTh, Prio, G, T, TB, Fin, Cands

VARIABLES holder, wpc, nextTask, waiting, spc, kpc,
          nparsed,    \* blocks the parser has confirmed so far
          nread,      \* I/O blocks delivered by the reader
          coin        \* per worker: nondeterministic choice made at ...Begin

svars == <<holder, wpc, nextTask, waiting, spc, kpc, nparsed, nread, coin>>
vars == <<dvars, svars>>

Workers == 1..W
SRC == W + 1
SNK == W + 2
NB == (T + G - 1) \div G
Exact == T = NB * G
Min(a, b) == IF a < b THEN a ELSE b
Cell(c) == [p |-> c, o |-> c]
BlkEndOf(off) == Min(off + G, T)
ERR == 3
ERR_CRC == 15
ERR_EOF == 19

Cfg == [W |-> W, TotIn |-> TotIn, TotOut |-> TotOut, Ultra |-> Ultra, ScanTh |-> ScanTh, EmitTh |-> EmitTh,
        UnordTh |-> ScanTh + EmitTh, Prio |-> Prio, Bpw |-> 1]

ScanBases == {TB[i].base : i \in {j \in 1..Len(TB) : TB[j].scan}} \cup {c.base : c \in Cands}
Desc(b) == IF \E i \in 1..Len(TB) : TB[i].base = b
           THEN LET i == CHOOSE i \in 1..Len(TB) : TB[i].base = b
                IN [end |-> TB[i].end, outs |-> TB[i].outs, kind |-> TB[i].kind]
           ELSE LET c == CHOOSE c \in Cands : c.base = b
                IN [end |-> c.end, outs |-> c.outs, kind |-> IF c.ok THEN "ok" ELSE "rerr"]

Init == /\ DInit(Cfg, Workers)
        /\ holder = 0 /\ wpc = [w \in Workers |-> "start"] /\ nextTask = "null" /\ waiting = {}
        /\ spc = "take" /\ kpc = "idle" /\ nparsed = 0 /\ nread = 0 /\ coin = [w \in Workers |-> 0]

Unlock(base) ==
  /\ nextTask' = Select'
  /\ holder' = 0
  /\ IF (nextTask' # "null" \/ Finished') /\ waiting # {}
     THEN \E x \in waiting : waiting' = waiting \ {x} /\ wpc' = [base EXCEPT ![x] = "woken"]
     ELSE waiting' = waiting /\ wpc' = base
Return(w) == /\ nextTask' = Select' /\ holder' = holder /\ waiting' = waiting
             /\ wpc' = [wpc EXCEPT ![w] = "loop"]
Running(w, task) == wpc[w] = "loop" /\ holder = w /\ nextTask = task
At(w, pc) == wpc[w] = pc /\ holder = w
Goto(w, pc) == [wpc EXCEPT ![w] = pc]
Rest == UNCHANGED <<spc, kpc, nread>>

WLock(w, from, to) == /\ wpc[w] = from /\ holder = 0
                      /\ holder' = w /\ wpc' = Goto(w, to)
                      /\ UNCHANGED <<dvars, nextTask, waiting, spc, kpc, nparsed, nread, coin>>
WIdle(w) == /\ Running(w, "null")
            /\ IF Finished
               THEN /\ wpc' = [x \in Workers |-> IF x = w THEN "done" ELSE IF x \in waiting THEN "woken" ELSE wpc[x]]
                    /\ waiting' = {}
               ELSE /\ wpc' = Goto(w, "wait") /\ waiting' = waiting \cup {w}
            /\ holder' = 0
            /\ UNCHANGED <<dvars, nextTask, spc, kpc, nparsed, nread, coin>>

\* ---- do_parse ----
ParseTarget == IF nparsed < Len(TB) THEN TB[nparsed + 1].base ELSE Fin.pos
ParseBegin(w) == /\ Running(w, "parse") /\ DParseBegin(w)
                 /\ \E c \in {0, 1} : coin' = [coin EXCEPT ![w] = c]
                 /\ Unlock(Goto(w, "p_parsing")) /\ Rest /\ UNCHANGED nparsed
ParseEnd(w) ==
  /\ At(w, "p_end")
  /\ LET pin == carry[w].pin
         from == parserPos.o
         atTail == pin = NoPin
         lim == IF atTail THEN from ELSE BlkEndOf(pin)
         tgt == ParseTarget
         to == Min(tgt, lim)
         \* a block header is recognised as soon as it has been read; FINISH needs to see
         \* end of file, or enough of what follows the trailer to know it is not a header
         reached == to = tgt /\ (nparsed < Len(TB) \/ atTail \/ (tgt < T /\ (tgt < lim \/ coin[w] = 1)))
     IN IF ~reached THEN DParseMore(w, Cell(to), 0) /\ UNCHANGED nparsed
        ELSE IF nparsed = Len(TB)
        THEN (IF Fin.ok THEN DParseFinish(w, Cell(to), 0) ELSE DParseErr(w)) /\ UNCHANGED nparsed
        ELSE DParseBlock(w, Cell(to), 0) /\ nparsed' = nparsed + 1
  /\ (IF failed' THEN UNCHANGED <<holder, wpc, nextTask, waiting>> ELSE Return(w))
  /\ Rest /\ UNCHANGED coin

\* ---- do_retrieve ----
RetrBegin(w) == /\ Running(w, "retrieve") /\ \E rb \in MinRetrs(retrQ) : DRetrBegin(w, rb)
                /\ Unlock(Goto(w, "r_retrieving")) /\ Rest /\ UNCHANGED <<nparsed, coin>>
RetrEnd(w) ==
  /\ At(w, "r_end")
  /\ LET rb == carry[w].rb
         pin == carry[w].pin
         d == Desc(rb.base)
         atTail == pin = NoPin
         to == IF atTail THEN rb.cur.o ELSE Min(d.end, BlkEndOf(pin))
         final == atTail \/ to = d.end
         rv == IF ~final THEN MORE ELSE IF atTail THEN ERR_EOF ELSE IF d.kind = "rerr" THEN ERR ELSE OK
     IN DRetrEnd(w, rv, Cell(to), 0)
  /\ (IF carry'[w] = None THEN Return(w) ELSE Unlock(Goto(w, "r_decoding")))
  /\ Rest /\ UNCHANGED <<nparsed, coin>>
RetrPush(w) == /\ At(w, "r_push") /\ DRetrPush(w) /\ Return(w) /\ Rest /\ UNCHANGED <<nparsed, coin>>

\* ---- do_emit, do_reorder ----
EmitBegin(w) == /\ Running(w, "emit") /\ DEmitBegin(w)
                /\ Unlock(Goto(w, "e_emitting")) /\ Rest /\ UNCHANGED <<nparsed, coin>>
EmitEnd(w) ==
  /\ At(w, "e_end")
  /\ LET eb == carry[w].eb
         st == IF eb.st # OK THEN eb.st
               ELSE IF eb.base[2] + 1 < Desc(eb.base[1]).outs THEN MORE ELSE OK
     IN DEmitEnd(w, st)
  /\ Return(w) /\ Rest /\ UNCHANGED <<nparsed, coin>>
Reorder(w) ==
  /\ Running(w, "reorder")
  /\ LET ob == MinBase(reordQ)
         fin == IF ob.st = OK /\ Desc(ob.base[1]).kind = "crc" THEN ERR_CRC ELSE ob.st
     IN DReorder(w, fin)
  /\ (IF failed' THEN UNCHANGED <<holder, wpc, nextTask, waiting>> ELSE Return(w))
  /\ Rest /\ UNCHANGED <<nparsed, coin>>

\* ---- do_scan ----
\* scan() may or may not skip to the parser's position (the skip is rounded in the code)
ScanBegin(w) == /\ Running(w, "scan") /\ DScanBegin(w)
                /\ \E c \in {0, 1} : coin' = [coin EXCEPT ![w] = c]
                /\ Unlock(Goto(w, "s_scanning")) /\ Rest /\ UNCHANGED nparsed
ScanEnd(w) ==
  /\ At(w, "s_end")
  /\ LET x == carry[w].x
         lim == BlkEndOf(carry[w].pin)
         start == IF coin[w] = 1 /\ parserPos.o > x.o /\ parserPos.o <= lim THEN parserPos.o ELSE x.o
         hits == {b \in ScanBases : b >= start + 1 /\ b <= lim}
     IN IF hits = {} THEN DScanEnd(w, FALSE, x, TRUE, 0)
        ELSE DScanEnd(w, TRUE, Cell(MinOf(hits)), MinOf(hits) = lim, 0)
  /\ Return(w) /\ Rest /\ UNCHANGED <<nparsed, coin>>

WorkerNext(w) ==
  \/ WLock(w, "start", "loop") \/ WLock(w, "woken", "loop") \/ WIdle(w)
  \/ ParseBegin(w) \/ WLock(w, "p_parsing", "p_end") \/ ParseEnd(w)
  \/ RetrBegin(w) \/ WLock(w, "r_retrieving", "r_end") \/ RetrEnd(w)
  \/ WLock(w, "r_decoding", "r_push") \/ RetrPush(w)
  \/ EmitBegin(w) \/ WLock(w, "e_emitting", "e_end") \/ EmitEnd(w) \/ Reorder(w)
  \/ ScanBegin(w) \/ WLock(w, "s_scanning", "s_end") \/ ScanEnd(w)

\* ---- reader ----
SUnch == UNCHANGED <<holder, wpc, nextTask, waiting, kpc, nparsed, coin>>
SrcTake == /\ spc = "take" /\ (inSlots > 0 \/ reqClose)
           /\ IF reqClose THEN DSrcStop /\ spc' = "eof"
              ELSE DSrcTake /\ spc' = (IF nread < NB THEN "avail" ELSE "empty")
           /\ SUnch /\ UNCHANGED nread
SrcEmpty == /\ spc = "empty" /\ DSrcEmpty /\ spc' = "eof" /\ SUnch /\ UNCHANGED nread
SrcLock(from, to) == /\ spc = from /\ holder = 0 /\ holder' = SRC /\ spc' = to
                     /\ UNCHANGED <<dvars, wpc, nextTask, waiting, kpc, nparsed, nread, coin>>
SrcAvail == /\ spc = "avail_l" /\ holder = SRC
            /\ nread' = nread + 1
            /\ IF parsingDone
               THEN DAvailDrop /\ spc' = "drop"
               ELSE DAvail(Min(G, T - nread * G)) /\ spc' = (IF nread' < NB \/ Exact THEN "take" ELSE "eof")
            /\ Unlock(wpc) /\ UNCHANGED <<kpc, nparsed, coin>>
SrcDrop == /\ spc = "drop" /\ DSrcEmpty /\ spc' = (IF nread < NB \/ Exact THEN "take" ELSE "eof")
           /\ SUnch /\ UNCHANGED nread
SrcEof == /\ spc = "eof_l" /\ holder = SRC /\ DEof /\ spc' = "done"
          /\ Unlock(wpc) /\ UNCHANGED <<kpc, nparsed, nread, coin>>
\* ---- writer ----
SinkPop == /\ kpc = "idle" /\ DSinkPop /\ kpc' = "written"
           /\ UNCHANGED <<holder, wpc, nextTask, waiting, spc, nparsed, nread, coin>>
SinkLock == /\ kpc = "written" /\ holder = 0 /\ holder' = SNK /\ kpc' = "written_l"
            /\ UNCHANGED <<dvars, wpc, nextTask, waiting, spc, nparsed, nread, coin>>
SinkWritten == /\ kpc = "written_l" /\ holder = SNK /\ DWritten /\ kpc' = "idle"
               /\ Unlock(wpc) /\ UNCHANGED <<spc, nparsed, nread, coin>>

Next == /\ ~failed
        /\ \/ \E w \in Workers : WorkerNext(w)
           \/ SrcTake \/ SrcEmpty \/ SrcLock("avail", "avail_l") \/ SrcAvail \/ SrcDrop
           \/ SrcLock("eof", "eof_l") \/ SrcEof
           \/ SinkPop \/ SinkLock \/ SinkWritten
Spec == Init /\ [][Next]_vars
FairSpec == Spec /\ WF_vars(Next)

---------------------------------------------------------------------------
AllDone == \A w \in Workers : wpc[w] = "done"
NextTaskFresh == (holder = 0 /\ ~failed) => nextTask = Select
\* the purely sequential decoding of the true chain: its output buffers, in order, up to
\* (and including the non-final buffers of) the first block that fails
Bufs(i, n) == [m \in 1..n |-> <<TB[i].base, m - 1>>]
SeqOutUpTo[i \in 0..Len(TB)] ==
  IF i = 0 THEN <<>>
  ELSE IF \E j \in 1..(i - 1) : TB[j].kind # "ok" THEN SeqOutUpTo[i - 1]
  ELSE SeqOutUpTo[i - 1] \o (CASE TB[i].kind = "ok" -> Bufs(i, TB[i].outs)
                               [] TB[i].kind = "crc" -> Bufs(i, TB[i].outs - 1)
                               [] OTHER -> <<>>)
SeqOut == SeqOutUpTo[Len(TB)]
SeqFails == (\E j \in 1..Len(TB) : TB[j].kind # "ok") \/ ~Fin.ok
Out == written \o sinkQ
IsPrefix(a, b) == Len(a) <= Len(b) /\ \A i \in 1..Len(a) : a[i] = b[i]
\* C10/C09: whatever the schedule, only the sequential decoding reaches the writer
OutputIsSequential == IsPrefix(Out, SeqOut)
FailsOnlyIfSeqFails == failed => SeqFails
Termination == AllDone => (Quiescent /\ ~SeqFails /\ Out = SeqOut /\ kpc = "idle" /\ ConserveIn(0) /\ inSlots = TotIn)
InSlotsOK == ConserveIn(0) /\ inSlots \in 0..TotIn
NoDeadlock == failed \/ (AllDone /\ sinkQ = <<>> /\ kpc = "idle") \/ ENABLED Next
Live == <>(failed \/ (AllDone /\ sinkQ = <<>> /\ kpc = "idle"))
SuccessLive == (~SeqFails) => <>AllDone
=============================================================================
