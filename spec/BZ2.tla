-------------------------------- MODULE BZ2 --------------------------------
(***************************************************************************)
(* The bzip2 1.0.x container and block format as definitions, not as a     *)
(* machine: what a block IS (Desc), when it is well formed (ValidBlock),   *)
(* what it decodes to (Plain), how it is written down (BlockBits,          *)
(* StreamBits), and which files are valid (ValidFile, with the trailing-   *)
(* data rule of lbzip2's parser).  TLC is used as a GENERATOR: in          *)
(* simulation mode it draws random descriptions that vary every legal      *)
(* degree of freedom - or carry exactly one defect - and prints them with  *)
(* the verdict of these definitions.  tools/bzfmt.py serialises the        *)
(* descriptions; for the calibration sample TLC also computes the bytes,   *)
(* CRCs and plaintext itself and tools/bzfmt.py must agree bit for bit.    *)
(***************************************************************************)
EXTENDS Naturals, Sequences, SequencesExt, FiniteSets, FiniteSetsExt, TLC, Json, Randomization

CONSTANTS Mode,        \* "valid" | "defect" | "calibrate"
          MaxSyms      \* upper bound on symbols per generated block

---------------------------------------------------------------------------
(* bit helpers (bits are 0/1, most significant first)                      *)
Pow2(n) == 2 ^ n
BitsOf(n, v) == [i \in 1..n |-> (v \div Pow2(n - i)) % 2]
Xor(a, b) == IF a = b THEN 0 ELSE 1
Flatten(ss) == FoldLeft(LAMBDA a, b : a \o b, <<>>, ss)
ToNum(bs) == FoldLeft(LAMBDA acc, b : 2 * acc + b, 0, bs)
Rep(x, n) == [i \in 1..n |-> x]

(* CRC-32 of bzip2 (MSB first, polynomial 04C11DB7) on 32-element bit sequences *)
Poly == BitsOf(16, 1217) \o BitsOf(16, 7607)
CrcBit(crc, b) == LET top == Xor(crc[1], b)
                      sh == Tail(crc) \o <<0>>
                  IN IF top = 1 THEN [i \in 1..32 |-> Xor(sh[i], Poly[i])] ELSE sh
CrcByte(crc, byte) == FoldLeft(CrcBit, crc, BitsOf(8, byte))
Crc32(bytes) == LET c == FoldLeft(CrcByte, [i \in 1..32 |-> 1], bytes) IN [i \in 1..32 |-> 1 - c[i]]
Combine(cc, c) == LET r == Tail(cc) \o <<cc[1]>> IN [i \in 1..32 |-> Xor(r[i], c[i])]

---------------------------------------------------------------------------
(* Block semantics.  A description:                                        *)
(*   [rand, idx, used (increasing byte values), tables (code-length        *)
(*    vectors), sels (table numbers, one per group, then surplus ones),    *)
(*    syms (0 = RUNA, 1 = RUNB, k >= 2 = MTF position k-1, last = EOB),    *)
(*    paths (per table, per symbol: extra zig-zag steps in the delta code)]*)
EOBOf(used) == Len(used) + 1
MoveToFront(l, k) == <<l[k]>> \o SubSeq(l, 1, k - 1) \o SubSeq(l, k + 1, Len(l))
\* state: <<mtf list, output, run, shift>>
SymStep(st, s) ==
  LET l == st[1] out == st[2] run == st[3] sh == st[4] IN
  IF s < 2 THEN <<l, out, run + (s + 1) * Pow2(sh), sh + 1>>
  ELSE LET out1 == out \o Rep(l[1], run) IN
       IF s = Len(l) + 1 THEN <<l, out1, 0, 0>>
       ELSE LET l2 == MoveToFront(l, s) IN <<l2, Append(out1, l2[1]), 0, 0>>
TT(used, syms) == FoldLeft(SymStep, <<used, <<>>, 0, 0>>, syms)[2]
\* inverse BWT: stable sort of positions by byte, then follow the chain from idx (0-based)
IBWT(tt, idx) ==
  LET n == Len(tt)
      ord == SortSeq([i \in 1..n |-> i], LAMBDA a, b : tt[a] < tt[b] \/ (tt[a] = tt[b] /\ a < b))
      step(acc, k) == LET p == acc[1] IN <<ord[p], Append(acc[2], tt[p])>>
  IN IF n = 0 THEN <<>> ELSE FoldLeft(step, <<ord[idx + 1], <<>>>>, [k \in 1..n |-> k])[2]
\* un-RLE: four equal bytes are followed by a count; acc = <<out, last, run>>
UnRleStep(acc, b) ==
  LET out == acc[1] last == acc[2] run == acc[3] IN
  IF run = 4 THEN <<out \o Rep(last, b), 256, 0>>
  ELSE IF b = last THEN <<Append(out, b), b, run + 1>>
  ELSE <<Append(out, b), b, 1>>
UnRleAcc(d) == FoldLeft(UnRleStep, <<<<>>, 256, 0>>, d)
Rle(blk) == IBWT(TT(blk.used, blk.syms), blk.idx)           \* (tiny blocks: randomisation never reaches byte 618)
Plain(blk) == UnRleAcc(Rle(blk))[1]
MissingCount(blk) == UnRleAcc(Rle(blk))[3] = 4

---------------------------------------------------------------------------
(* Well-formedness (bzip2 1.0.x, as strict as lbzip2 documents it).        *)
Kraft(lens) == FoldLeft(LAMBDA a, l : a + Pow2(20 - l), 0, lens)
Complete(lens) == Kraft(lens) = Pow2(20)
Groups(blk) == (Len(blk.syms) + 49) \div 50
UsedTables(blk) == {blk.sels[g] : g \in 1..Groups(blk)}
LensOK(lens) == \A i \in 1..Len(lens) : lens[i] \in 1..20
ValidBlock(blk, level) ==
  /\ Len(blk.used) >= 1
  /\ Len(blk.tables) \in 2..6
  /\ Len(blk.sels) >= Groups(blk) /\ Len(blk.sels) >= 1 /\ Len(blk.sels) <= 32767
  /\ \A g \in 1..Len(blk.sels) : blk.sels[g] < Len(blk.tables)
  /\ \A t \in 1..Len(blk.tables) : Len(blk.tables[t]) = Len(blk.used) + 2 /\ LensOK(blk.tables[t])
  \* a table that codes at least one group must be a complete prefix code
  /\ \A t \in UsedTables(blk) : Kraft(blk.tables[t + 1]) <= Pow2(20)
  /\ Len(blk.syms) >= 1 /\ blk.syms[Len(blk.syms)] = EOBOf(blk.used)
  /\ \A i \in 1..(Len(blk.syms) - 1) : blk.syms[i] <= Len(blk.used)
  /\ LET tt == TT(blk.used, blk.syms) IN
     /\ Len(tt) >= 1 /\ Len(tt) <= level * 100000
     /\ blk.idx < Len(tt)
\* the two documented exceptions of lbzip2: still valid bzip2, but rejected
LbzRejects(blk) == (\E t \in UsedTables(blk) : ~Complete(blk.tables[t + 1])) \/ MissingCount(blk)

---------------------------------------------------------------------------
(* Serialisation.                                                          *)
Canon(lens) ==   \* symbol (1-based) -> <<code, len>>
  LET n == Len(lens)
      order == SortSeq([i \in 1..n |-> i], LAMBDA a, b : lens[a] < lens[b] \/ (lens[a] = lens[b] /\ a < b))
      step(acc, s) == LET c == acc[1] * Pow2(lens[s] - acc[2]) IN <<c + 1, lens[s], [acc[3] EXCEPT ![s] = <<c, lens[s]>>]>>
  IN FoldLeft(step, <<0, lens[order[1]], [s \in 1..n |-> <<0, 0>>]>>, order)[3]
Unary(k) == Rep(1, k) \o <<0>>
\* delta coding of one table with path[i] detours (+1 -1, or -1 +1 at the top) before symbol i
DeltaBits(lens, path) ==
  LET step(acc, i) == LET cur == acc[1]
                          tgt == lens[i]
                          zz == IF cur < 20 THEN <<1, 0, 1, 1>> ELSE <<1, 1, 1, 0>>
                          det == Flatten(Rep(zz, path[i]))
                          up == IF tgt > cur THEN Flatten(Rep(<<1, 0>>, tgt - cur)) ELSE <<>>
                          dn == IF tgt < cur THEN Flatten(Rep(<<1, 1>>, cur - tgt)) ELSE <<>>
                      IN <<tgt, acc[2] \o det \o up \o dn \o <<0>>>>
  IN FoldLeft(step, <<lens[1], BitsOf(5, lens[1])>>, [i \in 1..Len(lens) |-> i])[2]
BitmapBits(used) ==
  LET S == {used[i] : i \in 1..Len(used)}
      grp(g) == [b \in 1..16 |-> IF (16 * g + b - 1) \in S THEN 1 ELSE 0]
      has(g) == \E x \in S : x \div 16 = g
  IN [g \in 1..16 |-> IF has(g - 1) THEN 1 ELSE 0] \o Flatten([g \in 1..16 |-> IF has(g - 1) THEN grp(g - 1) ELSE <<>>])
SelMtf(sels, nt) ==
  LET step(acc, sel) == LET l == acc[1] pos == CHOOSE p \in 1..nt : l[p] = sel
                        IN <<MoveToFront(l, pos), acc[2] \o Unary(pos - 1)>>
  IN FoldLeft(step, <<[i \in 1..nt |-> i - 1], <<>>>>, sels)[2]
SymBits(blk) ==
  LET codes == [t \in 1..Len(blk.tables) |-> Canon(blk.tables[t])]
  IN Flatten([i \in 1..Len(blk.syms) |->
        LET c == codes[blk.sels[((i - 1) \div 50) + 1] + 1][blk.syms[i] + 1] IN BitsOf(c[2], c[1])])
BlockBits(blk) ==
  BitsOf(24, 3227993) \o BitsOf(24, 2511705)                \* 0x314159 0x265359
  \o Crc32(Plain(blk)) \o <<blk.rand>> \o BitsOf(24, blk.idx)
  \o BitmapBits(blk.used) \o BitsOf(3, Len(blk.tables)) \o BitsOf(15, Len(blk.sels))
  \o SelMtf(blk.sels, Len(blk.tables))
  \o Flatten([t \in 1..Len(blk.tables) |-> DeltaBits(blk.tables[t], blk.paths[t])])
  \o SymBits(blk)
StreamBits(level, blks) ==
  LET crcs == [i \in 1..Len(blks) |-> Crc32(Plain(blks[i]))]
      comb == FoldLeft(Combine, [i \in 1..32 |-> 0], crcs)
  IN BitsOf(8, 66) \o BitsOf(8, 90) \o BitsOf(8, 104) \o BitsOf(8, 48 + level)
     \o Flatten([i \in 1..Len(blks) |-> BlockBits(blks[i])])
     \o BitsOf(24, 1536581) \o BitsOf(24, 3690640) \o comb   \* 0x177245 0x385090
Pad8(bs) == bs \o Rep(0, (8 - (Len(bs) % 8)) % 8)
ToBytes(bs) == LET p == Pad8(bs) IN [i \in 1..(Len(p) \div 8) |-> ToNum(SubSeq(p, 8 * i - 7, 8 * i))]

---------------------------------------------------------------------------
(* Files.  A file description: [streams |-> sequence of [level, blocks],   *)
(* trailing |-> byte sequence, defect |-> record].  Trailing data after    *)
(* the last complete stream is ignored unless it begins with a full        *)
(* "BZh1".."BZh9" header (then it must itself be a valid stream).          *)
StartsWithHeader(tr) == Len(tr) >= 4 /\ tr[1] = 66 /\ tr[2] = 90 /\ tr[3] = 104 /\ tr[4] \in 49..57
ValidFile(f) ==
  /\ Len(f.streams) >= 1
  /\ \A s \in 1..Len(f.streams) : \A b \in 1..Len(f.streams[s].blocks) : ValidBlock(f.streams[s].blocks[b], f.streams[s].level)
  /\ ~StartsWithHeader(f.trailing)
  /\ f.defect.kind = "none"
FileBytes(f) == Flatten([s \in 1..Len(f.streams) |-> ToBytes(StreamBits(f.streams[s].level, f.streams[s].blocks))]) \o f.trailing
FilePlain(f) == Flatten([s \in 1..Len(f.streams) |-> Flatten([b \in 1..Len(f.streams[s].blocks) |-> Plain(f.streams[s].blocks[b])])])

---------------------------------------------------------------------------
(* Generator.                                                              *)
\* a complete code for n symbols: split a random leaf n-1 times (depth < 20), shuffle
RandComplete(n) ==
  LET split(ds, k) == LET cand == {i \in 1..Len(ds) : ds[i] < 20}
                          i == RandomElement(cand)
                      IN SubSeq(ds, 1, i - 1) \o <<ds[i] + 1, ds[i] + 1>> \o SubSeq(ds, i + 1, Len(ds))
      ds == FoldLeft(split, <<1, 1>>, [k \in 1..(n - 2) |-> k])
      key == [i \in 1..n |-> RandomElement(1..1000) * 300 + i]
      order == SortSeq([i \in 1..n |-> i], LAMBDA a, b : key[a] < key[b])
  IN [i \in 1..n |-> ds[order[i]]]
\* a long-code table: a chain 1,2,3,...,k,k (depth up to 20)
Chain(n) == [i \in 1..n |-> IF i < n THEN (IF i <= 20 THEN i ELSE 20) ELSE (IF n - 1 <= 20 THEN n - 1 ELSE 20)]
RandTable(n) == IF n <= 21 /\ RandomElement(1..4) = 1 THEN Chain(n) ELSE RandComplete(n)
\* an arbitrary (possibly incomplete or oversubscribed) table for a table no group uses
AnyTable(n) == [i \in 1..n |-> RandomElement(1..20)]
RandBlock(maxsyms) ==
  LET nu == RandomElement(1..6)
      used == SetToSortSeq(RandomSubset(nu, RandomElement({0..255, 60..75, {0, 1, 2, 254, 255, 16, 17}})), <)
      as == nu + 2
      ns == RandomElement(1..maxsyms)
      \* run symbols come at most three in a row (a run of at most 14), except for one optional long run
      longrun == IF Mode # "calibrate" /\ RandomElement(1..6) = 1 THEN RandomElement(4..9) ELSE 0
      body0 == [i \in 1..ns |-> IF i % 5 \in {1, 2, 3} /\ RandomElement(1..2) = 1 THEN RandomElement(0..1)
                                ELSE IF nu = 1 THEN RandomElement(0..1) ELSE RandomElement(2..nu)]
      body == IF nu = 1 THEN [i \in 1..(1 + (ns % 3)) |-> RandomElement(0..1)]
              ELSE body0 \o [i \in 1..longrun |-> 1] \o (IF longrun > 0 THEN <<RandomElement(2..nu)>> ELSE <<>>)
      syms == body \o <<nu + 1>>
      ng == (Len(syms) + 49) \div 50
      nt == RandomElement(2..6)
      nused == RandomElement(1..nt)
      sels == [g \in 1..ng |-> RandomElement(0..(nused - 1))] \o [g \in 1..RandomElement({0, 0, 1, 3, 7}) |-> RandomElement(0..(nt - 1))]
      coded == {sels[g] : g \in 1..ng}
      tables == [t \in 1..nt |-> IF (t - 1) \in coded THEN RandTable(as) ELSE IF RandomElement(1..2) = 1 THEN AnyTable(as) ELSE RandTable(as)]
      paths == [t \in 1..nt |-> [i \in 1..as |-> RandomElement({0, 0, 0, 1, 2})]]
      tt == TT(used, syms)
  IN [rand |-> RandomElement({0, 0, 0, 1}), idx |-> IF Len(tt) > 0 THEN RandomElement(0..(Len(tt) - 1)) ELSE 0,
      used |-> used, tables |-> tables, sels |-> sels, syms |-> syms, paths |-> paths]
NoDefect == [kind |-> "none", s |-> 0, b |-> 0, arg |-> 0]
RandFile ==
  LET nstreams == RandomElement({1, 1, 1, 2, 3})
      streams == [s \in 1..nstreams |-> [level |-> RandomElement(1..9),
                                        blocks |-> [b \in 1..RandomElement({0, 1, 1, 2, 3}) |-> RandBlock(MaxSyms)]]]
      trailing == RandomElement({<<>>, <<>>, <<0>>, <<66>>, <<66, 90>>, <<66, 90, 104>>, <<66, 90, 104, 48>>, <<66, 90, 104, 58>>,
                                 <<98, 90, 104, 57, 1, 2, 3>>, <<255, 255, 49, 65, 89, 38, 83, 89, 0, 0>>})
  IN [kind |-> "file", streams |-> streams, trailing |-> trailing, defect |-> NoDefect]

\* exactly one rule violation; the kinds that change the description are applied here, the
\* bit-level ones (CRC flips, truncation, garbage, header damage) are applied by the serialiser
DefectKinds == {"delta_low", "delta_high", "oversubscribed_used", "selector_range", "zero_selectors", "trees_0", "trees_1", "trees_7",
                "empty_bitmap", "idx_too_big", "overflow_level", "block_crc_bit", "stream_crc_bit",
                "truncate", "trailing_header", "bad_block_magic", "bad_first_header"}
RandDefect(f) ==
  LET s == RandomElement(1..Len(f.streams))
      nb == Len(f.streams[s].blocks)
      kinds == IF nb = 0 THEN {"stream_crc_bit", "truncate", "trailing_header", "bad_first_header"} ELSE DefectKinds
  IN [kind |-> RandomElement(kinds), s |-> s, b |-> IF nb = 0 THEN 0 ELSE RandomElement(1..nb), arg |-> RandomElement(0..1000)]

VARIABLES n, item
vars == <<n, item>>
Init == n = 0 /\ item = [kind |-> "start"]
\* two steps, so that the defect is drawn for the file that was actually drawn (a LET in an action
\* is re-evaluated at every use, and each evaluation of RandFile is a fresh draw)
Draw == /\ item.kind # "draft" /\ n' = n + 1
        /\ item' = [RandFile EXCEPT !.kind = IF Mode = "defect" THEN "draft" ELSE "file"]
Damage == /\ item.kind = "draft" /\ n' = n
          /\ item' = [item EXCEPT !.kind = "file", !.defect = RandDefect(item)]
Next == Draw \/ Damage
Spec == Init /\ [][Next]_vars

\* file descriptions whose blocks are not empty (TT must be non-empty for a block to exist)
\* (Rle() leaves out derandomisation, which first touches byte 618: randomised blocks are kept below that here;
\*  longer randomised blocks are built by tools/bzfmt.py and judged by the calibrated inspector)
Sane(f) == \A s \in 1..Len(f.streams) : \A b \in 1..Len(f.streams[s].blocks) :
             LET bk0 == f.streams[s].blocks[b] ntt0 == Len(TT(bk0.used, bk0.syms)) IN
             ntt0 >= 1 /\ (bk0.rand = 1 => ntt0 <= 617)
Verdict(f) == [valid |-> ValidFile(f),
               lbz_rejects |-> \E s \in 1..Len(f.streams) : \E b \in 1..Len(f.streams[s].blocks) : LbzRejects(f.streams[s].blocks[b])]
Export ==
  (item.kind = "file" /\ Sane(item)) =>
     PrintT(<<"BEHAVIOUR", ToJson([file |-> item, verdict |-> Verdict(item)]
                                   @@ (IF Mode = "calibrate" THEN [bytes |-> FileBytes(item), plain |-> FilePlain(item)] ELSE [x |-> 0]))>>)
=============================================================================
