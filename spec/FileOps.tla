------------------------------ MODULE FileOps ------------------------------
(***************************************************************************)
(* The operand loop of lbzip2 (main.c: input_init, output_init, work,      *)
(* output_regf_uninit, input_oprnd_rm, exit status) as a function from a   *)
(* scenario - options and a list of operands, each with the file-system    *)
(* objects that matter for it - to the documented outcome: which operands  *)
(* are skipped with a warning, which output files appear under which names *)
(* with which metadata, which inputs are removed, and the exit status.     *)
(* The effect of a list of operands is the fold of the single-operand      *)
(* effects (C18); a fatal error stops the loop with status 1.              *)
(*                                                                         *)
(* TLC enumerates the scenarios and prints the expected outcome of each;   *)
(* tools/checks/c17.py and c18.py build every scenario in a scratch        *)
(* directory, run the real binary and compare names, contents, permission  *)
(* bits, timestamps and the exit status.                                   *)
(***************************************************************************)
EXTENDS Naturals, Sequences, FiniteSets, TLC, Json

CONSTANTS Modes,        \* subset of {"compress", "decompress"}
          OptSets,      \* set of option sets, each a subset of {"k", "c", "t", "f", "v"} ("v": informational
                        \* messages on standard error only - no effect on what happens to the operands or on the status)
          Kinds,        \* operand kinds: "regular", "hardlink", "symlink", "directory", "missing", "fifo"
          Suffixes,     \* "", ".bz2", ".tbz", ".tbz2", ".tz2", ".tar", ".bz2x"
          Existing,     \* what already sits at the output name: "none", "file", "directory"
          Contents,     \* "good" (what the mode expects), "bad" (not a bzip2 file when decompressing)
          ModeBits,     \* set of permission classes, e.g. {"0644", "0600", "0755", "4755"}
          ErrModes,     \* subset of BOOLEAN: TRUE = standard error cannot be written (e.g. 2>/dev/full): a diagnostic that
                        \* cannot be printed is itself a fatal error (log_generic -> bailout)
          Stems,        \* subset of {"x", ""}: "" = the operand's whole name is the suffix (a file called ".bz2")
          MaxOperands   \* length of operand lists for the fold property

CompSuffixes == {".bz2", ".tbz2", ".tbz", ".tz2"}
\* output name of a decompressed operand: strip .bz2, turn the tar shorthands into .tar, else add .out
DecompName(base, suf) == IF suf = ".bz2" THEN base
                         ELSE IF suf \in {".tbz2", ".tbz", ".tz2"} THEN base \o ".tar"
                         ELSE base \o suf \o ".out"

OutMode(mode, opts) == IF "t" \in opts THEN "discard" ELSE IF "c" \in opts THEN "stdout" ELSE "regf"
\* -t implies decompression
Dec(mode, opts) == mode = "decompress" \/ "t" \in opts

\* one operand: op = [kind, suffix, existing, content, bits]
\* result: [outcome: "skip" | "done" | "fatal", outname, removes_input, creates_output, reason]
Effect(mode, opts, op) ==
  LET dec == Dec(mode, opts)
      om == OutMode(mode, opts)
      force == "f" \in opts
      keep == "k" \in opts
      name == op.stem \o op.suffix
      outname == IF dec THEN DecompName(op.stem, op.suffix) ELSE name \o ".bz2"
      skip(r) == [outcome |-> "skip", outname |-> outname, removes_input |-> FALSE, creates_output |-> FALSE, reason |-> r]
  IN
  \* ---- input_init
  IF ~force /\ op.kind = "missing" THEN skip("lstat")
  ELSE IF ~force /\ om = "regf" /\ op.kind \in {"symlink", "directory", "fifo"} THEN skip("not a regular file")
  ELSE IF ~force /\ om = "regf" /\ ~keep /\ op.kind = "hardlink" THEN skip("more than one links")
  ELSE IF ~dec /\ op.suffix \in CompSuffixes THEN skip("compressed suffix")
  ELSE IF op.kind = "missing" THEN skip("open")
  \* ---- output_init
  ELSE IF om = "regf" /\ outname = "" THEN skip("empty output name")       \* ".bz2" decompresses to "": open() fails
  ELSE IF om = "regf" /\ op.existing = "file" /\ ~force THEN skip("output exists")
  ELSE IF om = "regf" /\ op.existing = "directory" THEN skip("output is a directory")
  \* ---- work
  ELSE IF op.kind = "directory"
  THEN [outcome |-> "fatal", outname |-> outname, removes_input |-> FALSE, creates_output |-> FALSE, reason |-> "read: is a directory"]
  ELSE IF dec /\ op.content = "bad" /\ ~(force /\ om = "stdout")
  THEN [outcome |-> "fatal", outname |-> outname, removes_input |-> FALSE, creates_output |-> FALSE, reason |-> "not a valid bzip2 file"]
  ELSE [outcome |-> "done", outname |-> outname,
        removes_input |-> om = "regf" /\ ~keep,
        creates_output |-> om = "regf",
        reason |-> IF om = "regf" /\ op.bits = "4755" THEN "special bits dropped" ELSE "ok"]

\* with standard error unwritable, the warning of a skipped operand cannot be printed: fatal at that operand
EffectE(mode, opts, op, errfull) ==
  LET e == Effect(mode, opts, op) IN
  IF errfull /\ e.outcome = "skip" THEN [e EXCEPT !.outcome = "fatal", !.reason = "cannot print: " \o e.reason] ELSE e

\* exit status of a list of operands; processing stops at the first fatal one
RECURSIVE Status(_, _, _, _, _)
Status(mode, opts, ops, warned, errfull) ==
  IF ops = <<>> THEN (IF warned THEN 4 ELSE 0)
  ELSE LET e == EffectE(mode, opts, Head(ops), errfull) IN
       IF e.outcome = "fatal" THEN 1
       ELSE Status(mode, opts, Tail(ops), warned \/ e.outcome = "skip" \/ e.reason = "special bits dropped", errfull)
Processed(mode, opts, ops, errfull) == \* how many operands are dealt with before a fatal one stops the run
  LET F[i \in 0..Len(ops)] == IF i = 0 THEN 0
                              ELSE IF F[i - 1] < i - 1 THEN F[i - 1]
                              ELSE IF EffectE(mode, opts, ops[i], errfull).outcome = "fatal" THEN i - 1 ELSE i
  IN F[Len(ops)]

Operands == [kind : Kinds, suffix : Suffixes, existing : Existing, content : Contents, bits : ModeBits, stem : Stems]
Sensible(op) == /\ (op.kind \in {"missing", "directory", "fifo"} => op.content = "good" /\ op.bits = "0644")
                \* a bare name needs a suffix, and is only used for plain regular operands without a pre-existing output
                /\ (op.stem = "" => op.suffix # "" /\ op.kind = "regular" /\ op.existing = "none" /\ op.bits = "0644")
                /\ (op.existing # "none" => op.bits = "0644")
Scenarios == {[mode |-> m, opts |-> o, ops |-> s, errfull |-> ef] : m \in Modes, o \in OptSets, ef \in ErrModes,
              s \in UNION {[1..n -> {op \in Operands : Sensible(op)}] : n \in 1..MaxOperands}}
\* a fifo operand is only ever looked at, never opened (it would block)
Safe(sc) == \A i \in 1..Len(sc.ops) : sc.ops[i].kind = "fifo" => (OutMode(sc.mode, sc.opts) = "regf" /\ "f" \notin sc.opts)
\* -c and -t are incompatible
Legal(sc) == /\ ~({"c", "t"} \subseteq sc.opts)
             \* with standard error unwritable only runs whose sole diagnostics are skip warnings / fatal errors are modelled
             /\ sc.errfull => ("v" \notin sc.opts /\ \A i \in 1..Len(sc.ops) : sc.ops[i].bits # "4755")

VARIABLES sc, phase
vars == <<sc, phase>>
Init == sc \in {x \in Scenarios : Safe(x) /\ Legal(x)} /\ phase = "new"
Next == phase = "new" /\ phase' = "done" /\ UNCHANGED sc
Spec == Init /\ [][Next]_vars

Expected(x) == [mode |-> x.mode, opts |-> x.opts, ops |-> x.ops, errfull |-> x.errfull,
                effects |-> [i \in 1..Len(x.ops) |-> EffectE(x.mode, x.opts, x.ops[i], x.errfull)],
                processed |-> Processed(x.mode, x.opts, x.ops, x.errfull),
                status |-> Status(x.mode, x.opts, x.ops, FALSE, x.errfull),
                om |-> OutMode(x.mode, x.opts), dec |-> Dec(x.mode, x.opts)]
\* C17, as invariants of the model itself
NeverClobbers == \A i \in 1..Len(sc.ops) :
                   ("f" \notin sc.opts /\ sc.ops[i].existing # "none") => ~Effect(sc.mode, sc.opts, sc.ops[i]).creates_output
SkipsNonRegular == \A i \in 1..Len(sc.ops) :
                   (OutMode(sc.mode, sc.opts) = "regf" /\ "f" \notin sc.opts /\ sc.ops[i].kind \in {"symlink", "directory", "fifo", "missing"})
                      => Effect(sc.mode, sc.opts, sc.ops[i]).outcome = "skip"
Export == phase = "done" => PrintT(<<"BEHAVIOUR", ToJson(Expected(sc))>>)
=============================================================================
