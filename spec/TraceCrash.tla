----------------------------- MODULE TraceCrash -----------------------------
(***************************************************************************)
(* Trace validation of the main thread's path through one invocation       *)
(* (main.c operand loop, signals.c cli / sti / halt / terminate / bailout, *)
(* cleanup) - the steps of Crash.tla as the hooks record them:             *)
(*   OpIn   input opened            Cli      handlers installed, blocked   *)
(*   OpOut  output created          Halt     sigsuspend() returned (sig)   *)
(*   Worked work() returned         OutDone  metadata set, output closed   *)
(*   InRm   input unlinked          Sti / StiDone  before / after unblock  *)
(*   InDone input closed            Exit     status                        *)
(*   Cleanup (output name recorded?)  Terminate (sig)  BailoutMain / Sub   *)
(* Every event carries whether SIGINT and SIGTERM are blocked in the       *)
(* emitting thread.  The driver (tools/checks/c16.py) brackets each run    *)
(* with a Plan line (options, injected fault) and an End line (how the     *)
(* process ended, what is on disk), so that the recorded path, the signal  *)
(* window and the externally observed end state must fit together:         *)
(*   - SIGINT/SIGTERM are blocked from Cli to Sti, in particular whenever  *)
(*     an output file exists that cleanup() would have to remove           *)
(*   - cleanup() runs before the process ends itself, and knows the output *)
(*     name exactly while a partial output exists                          *)
(*   - once OutDone is reached the output on disk is complete; the input   *)
(*     is gone only after OutDone; status 0/4 only after Exit              *)
(*   - SIGUSR1 is taken only after a sub-thread bailed out, SIGUSR2 never  *)
(*     after one                                                           *)
(* All other events (process.c, compress.c, expand.c) are stuttering here. *)
(***************************************************************************)
EXTENDS Naturals, Sequences, TLC, Json, IOUtils

TraceLog == ndJsonDeserialize(IOEnv.TRACE)
VARIABLES l, ph, plan, regf, seen, subfail, last
vars == <<l, ph, plan, regf, seen, subfail, last>>
Ev == TraceLog[l]
Must(cond, name) == IF cond THEN TRUE ELSE PrintT(<<"REJECT", l, Ev.e, name>>) /\ FALSE

MainPath == {"OpIn", "Cli", "OpOut", "Worked", "Halt", "OutDone", "InRm", "Sti", "StiDone", "InDone", "Exit",
             "Cleanup", "Terminate", "BailoutMain", "BailoutSub", "Plan", "End"}
NoPlan == [keep |-> FALSE, fault |-> "none"]
Init == l = 1 /\ ph = "idle" /\ plan = NoPlan /\ regf = FALSE /\ seen = {} /\ subfail = FALSE /\ last = "none"

Blk(b) == Must(Ev.blk = b, IF b = 1 THEN "SIGINT/SIGTERM blocked here" ELSE "SIGINT/SIGTERM not blocked here")
Goto(p) == ph' = p /\ last' = Ev.e /\ seen' = seen \cup {Ev.e} /\ UNCHANGED <<plan, subfail>>

Step ==
  /\ l <= Len(TraceLog)
  /\ l' = l + 1
  /\ IF Ev.e \notin MainPath THEN UNCHANGED <<ph, plan, regf, seen, subfail, last>>
     ELSE CASE Ev.e = "Plan" -> /\ ph' = "idle" /\ plan' = [keep |-> Ev.keep, fault |-> Ev.fault] /\ regf' = FALSE
                                /\ seen' = {} /\ subfail' = FALSE /\ last' = "Plan"
            [] Ev.e = "OpIn" -> Must(ph = "idle", "a new operand starts only when the previous one is finished") /\ Blk(0)
                                /\ Goto("in") /\ UNCHANGED regf
            [] Ev.e = "Cli" -> Must(ph = "in", "cli() right after the input is open, before any output exists") /\ Blk(1)
                               /\ Goto("cli") /\ UNCHANGED regf
            [] Ev.e = "OpOut" -> Must(ph = "cli", "the output is created inside the cli()..sti() window") /\ Blk(1)
                                 /\ Goto("out") /\ regf' = (Ev.regf = 1)
            [] Ev.e = "BailoutSub" -> Must(ph = "out", "sub-threads exist only during work()")
                                      /\ subfail' = TRUE /\ last' = last /\ UNCHANGED <<ph, plan, regf, seen>>
            [] Ev.e = "Halt" -> /\ Must(ph = "out", "halt() only during work()") /\ Blk(1)
                                /\ Must(Ev.sig = 10 => subfail, "SIGUSR1 only after a sub-thread bailed out")
                                /\ Must(Ev.sig = 12 => ~subfail, "SIGUSR2 never after a sub-thread bailed out")
                                /\ Goto(IF Ev.sig = 12 THEN "halted" ELSE IF Ev.sig = 10 THEN "failing" ELSE "interrupted")
                                /\ UNCHANGED regf
            [] Ev.e = "Worked" -> Must(ph = "halted", "work() returns only after SIGUSR2") /\ Blk(1) /\ Goto("worked") /\ UNCHANGED regf
            [] Ev.e = "OutDone" -> Must(ph = "worked" /\ regf, "metadata and close only for a regular output, after work()") /\ Blk(1)
                                   /\ Goto("outdone") /\ UNCHANGED regf
            [] Ev.e = "InRm" -> Must(ph = "outdone" /\ ~plan.keep, "the input is removed only after the output is complete, and not with -k")
                                /\ Blk(1) /\ Goto("inrm") /\ UNCHANGED regf
            [] Ev.e = "Sti" -> /\ Must(ph \in {"cli", "inrm"} \/ (ph = "outdone" /\ plan.keep) \/ (ph = "worked" /\ ~regf),
                                       "sti() after the operand is dealt with (or was skipped before an output existed)")
                               /\ Blk(1) /\ Goto("sti") /\ UNCHANGED regf
            [] Ev.e = "StiDone" -> Must(ph = "sti", "order") /\ Blk(0) /\ Goto("stidone") /\ UNCHANGED regf
            [] Ev.e = "InDone" -> Must(ph = "stidone", "order") /\ Goto("idle") /\ regf' = FALSE
            [] Ev.e = "Exit" -> Must(ph = "idle", "exit after the last operand") /\ Goto("exited") /\ UNCHANGED regf
            [] Ev.e = "BailoutMain" -> /\ Must(ph \in {"failing", "out", "worked", "outdone", "inrm", "stidone", "idle", "in", "cli"},
                                               "main-thread bailout after SIGUSR1 or a fatal error of its own")
                                       /\ Goto(IF ph = "failing" THEN "failing" ELSE "fatal") /\ UNCHANGED regf
            [] Ev.e = "Cleanup" -> /\ Must(ph \in {"failing", "interrupted", "fatal"}, "cleanup() on the way out")
                                   /\ Must((Ev.out = 1) <=> (regf /\ ("OutDone" \notin seen)),
                                           "cleanup() knows the output name exactly while a partial output exists")
                                   /\ Goto(IF ph = "interrupted" THEN "cleaned_sig" ELSE "cleaned") /\ UNCHANGED regf
            [] Ev.e = "Terminate" -> Must(ph = "cleaned_sig", "terminate() after cleanup()") /\ Goto("terminated") /\ UNCHANGED regf
            [] Ev.e = "End" ->
                 \* how the process ended and what is on disk, as the driver saw it
                 /\ Must(Ev.res \in {"exit0", "exit4"} => ph = "exited", "success is reported only after the whole path was walked")
                 /\ Must(ph = "exited" => Ev.res \in {"exit0", "exit4"}, "Exit is the last thing the process does")
                 /\ Must("OutDone" \in seen => Ev.out = "complete", "once OutDone is reached the output on disk is complete")
                 /\ Must((Ev.res \in {"exit0", "exit4"} /\ "OpOut" \in seen /\ regf) => "OutDone" \in seen,
                         "success with a regular output is reported only after OutDone")
                 \* (an event is logged after its action: SIGKILL can fall between the two)
                 /\ Must(Ev.inp = "gone" => ("OutDone" \in seen /\ ~plan.keep /\ ("InRm" \in seen \/ Ev.res = "killed")),
                         "the input disappears only through input_oprnd_rm(), after the output is complete")
                 /\ Must((Ev.out = "partial") => ("Cli" \in seen /\ (Ev.res = "killed" \/ "Cleanup" \in seen)),
                         "a partial output is left only by SIGKILL or when cleanup() could not remove it")
                 /\ Must(ph \in {"cleaned", "terminated"} => Ev.res \notin {"exit0", "exit4"}, "after cleanup() the process fails")
                 /\ ph' = "idle" /\ last' = "End" /\ UNCHANGED <<plan, regf, seen, subfail>>
Spec == Init /\ [][Step]_vars
NotAccepted == l <= Len(TraceLog)
=============================================================================
