-------------------------------- MODULE Emit --------------------------------
(***************************************************************************)
(* The resumable run-length decoder emit() of src/decode.c as a state      *)
(* machine, one step per output byte or input fetch, with the output       *)
(* buffer running full as a nondeterministic event at every place where    *)
(* the code tests its free space.  A behaviour fixes a block (the bytes    *)
(* that come out of the inverse BWT) and a sequence of output-buffer       *)
(* sizes; TLC checks that whatever the sizes are, the concatenated output  *)
(* is UnRle(block) (or the missing-count error) and prints every           *)
(* behaviour as one JSON line for replay through the real emit().          *)
(*                                                                         *)
(* st: 0 = fetch a fresh byte, 5 = fresh byte fetched and not yet written, *)
(*     1/2/3 = byte fetched that may be the 2nd/3rd/4th of a run,          *)
(*     4 = copying a run, 6 = fetch the next byte of the literal loop.     *)
(***************************************************************************)
EXTENDS Naturals, Sequences, TLC, Json

CONSTANTS Alphabet,     \* character byte values
          Counts,       \* byte values used as run counts (and, in string mode, as characters)
          MaxLen,       \* string mode: every string over Alphabet \cup Counts up to this length
          MaxPieces,    \* piece mode: concatenations of up to this many pieces, a piece being one
                        \* character, or four equal characters plus a count, or (last) without one
          MaxCalls      \* maximal number of emit() calls that end with a full buffer

VARIABLES blk, i, st, c, d, out, calls, cur, status

vars == <<blk, i, st, c, d, out, calls, cur, status>>

\* declarative meaning: four equal bytes are followed by a repeat count
RECURSIVE UnRleFrom(_, _)
UnRleFrom(b, k) ==
  IF k > Len(b) THEN <<>>
  ELSE LET x == b[k]
           n == IF k + 1 <= Len(b) /\ b[k + 1] = x
                THEN IF k + 2 <= Len(b) /\ b[k + 2] = x
                     THEN IF k + 3 <= Len(b) /\ b[k + 3] = x THEN 4 ELSE 3
                     ELSE 2
                ELSE 1
       IN IF n = 4
          THEN IF k + 4 <= Len(b)
               THEN [j \in 1..(4 + b[k + 4]) |-> x] \o UnRleFrom(b, k + 5)
               ELSE [j \in 1..4 |-> x]               \* count missing: what was written before the error
          ELSE [j \in 1..n |-> x] \o UnRleFrom(b, k + n)
UnRle(b) == UnRleFrom(b, 1)
RECURSIVE RunAware(_, _)
RunAware(b, k) ==
  IF k > Len(b) THEN FALSE
  ELSE LET x == b[k]
           n == IF k + 1 <= Len(b) /\ b[k + 1] = x
                THEN IF k + 2 <= Len(b) /\ b[k + 2] = x
                     THEN IF k + 3 <= Len(b) /\ b[k + 3] = x THEN 4 ELSE 3
                     ELSE 2
                ELSE 1
       IN IF n = 4 THEN (IF k + 4 <= Len(b) THEN RunAware(b, k + 5) ELSE TRUE) ELSE RunAware(b, k + n)
MissingCount(b) == RunAware(b, 1)

AllBytes == Alphabet \cup Counts
Strings == UNION {[1..n -> AllBytes] : n \in 0..MaxLen}
Pieces == {<<x>> : x \in Alphabet} \cup {<<x, x, x, x, n>> : x \in Alphabet, n \in Counts}
RECURSIVE Concats(_)
Concats(k) == IF k = 0 THEN {<<>>} ELSE LET S == Concats(k - 1) IN S \cup {b \o p : b \in S, p \in Pieces}
PieceBlocks == IF MaxPieces = 0 THEN {}
               ELSE LET S == Concats(MaxPieces - 1) IN
                    S \cup {b \o p : b \in S, p \in Pieces} \cup {b \o <<x, x, x, x>> : b \in S, x \in Alphabet}
Blocks == Strings \cup PieceBlocks

Init == /\ blk \in Blocks
        /\ i = 0 /\ st = 0 /\ c = 0 /\ d = 0 /\ out = <<>> /\ calls = <<>> /\ cur = 0 /\ status = "run"

Left == Len(blk) - i
Fetch == blk[i + 1]
Done(s) == /\ status' = s /\ calls' = Append(calls, cur)
           /\ UNCHANGED <<blk, i, st, c, d, out, cur>>
\* the buffer is full: emit() returns MORE, the next call resumes in the same state
Full == /\ status = "run" /\ cur > 0 /\ Len(calls) < MaxCalls
        /\ st \in {1, 2, 3, 5}                           \* the states that are about to write one byte
        /\ calls' = Append(calls, cur) /\ cur' = 0
        /\ UNCHANGED <<blk, i, st, c, d, out, status>>
\* copying a run of c bytes: the buffer may have room for only k < c of them
Full4 == /\ status = "run" /\ st = 4 /\ Len(calls) < MaxCalls
         /\ \E k \in 0..(c - 1) :
              /\ cur + k > 0
              /\ out' = out \o [j \in 1..k |-> d] /\ c' = c - k
              /\ calls' = Append(calls, cur + k) /\ cur' = 0
         /\ UNCHANGED <<blk, i, st, d, status>>
Put(x) == out' = Append(out, x) /\ cur' = cur + 1

Step ==
  /\ status = "run"
  /\ CASE st = 0 -> IF Left = 0 THEN Done("ok")
                    ELSE /\ c' = Fetch /\ i' = i + 1 /\ st' = 5
                         /\ UNCHANGED <<blk, d, out, calls, cur, status>>
       [] st = 5 -> /\ Put(c) /\ st' = 6 /\ UNCHANGED <<blk, i, c, d, calls, status>>
       [] st = 6 -> IF Left = 0 THEN Done("ok")
                    ELSE /\ d' = c /\ c' = Fetch /\ i' = i + 1 /\ st' = 1
                         /\ UNCHANGED <<blk, out, calls, cur, status>>
       [] st \in {1, 2} ->
                    IF c # d THEN /\ Put(c) /\ st' = 6 /\ UNCHANGED <<blk, i, c, d, calls, status>>
                    ELSE IF Left = 0
                    THEN /\ Put(c) /\ status' = "ok" /\ calls' = Append(calls, cur + 1)
                         /\ UNCHANGED <<blk, i, st, c, d>>
                    ELSE /\ Put(c) /\ c' = Fetch /\ i' = i + 1 /\ st' = st + 1
                         /\ UNCHANGED <<blk, d, calls, status>>
       [] st = 3 -> IF c # d THEN /\ Put(c) /\ st' = 6 /\ UNCHANGED <<blk, i, c, d, calls, status>>
                    ELSE IF Left = 0
                    THEN /\ Put(c) /\ status' = "err" /\ calls' = Append(calls, cur + 1)
                         /\ UNCHANGED <<blk, i, st, c, d>>
                    ELSE /\ Put(c) /\ c' = Fetch /\ i' = i + 1 /\ st' = 4
                         /\ UNCHANGED <<blk, d, calls, status>>
       [] st = 4 -> /\ out' = out \o [j \in 1..c |-> d] /\ cur' = cur + c /\ c' = 0 /\ st' = 0
                    /\ UNCHANGED <<blk, i, d, calls, status>>

Next == Step \/ Full \/ Full4
Spec == Init /\ [][Next]_vars

Terminal == status # "run"
\* whatever the buffer sizes, the bytes written are the run-length decoding of the block
Correct == Terminal => /\ out = UnRle(blk)
                       /\ (status = "err") = MissingCount(blk)
\* printed once per complete behaviour: the stimulus and what the real emit() must do
Export == Terminal => PrintT(<<"BEHAVIOUR", ToJson([blk |-> blk, calls |-> calls, out |-> out, status |-> status])>>)
=============================================================================
