------------------------------ MODULE Compress ------------------------------
(***************************************************************************)
(* Data layer of lbzip2's compression pipeline (src/compress.c on top of   *)
(* src/process.c).  One operator per critical section of the code; every  *)
(* operator takes the acting thread and, where the code's behaviour        *)
(* depends on a codec result, an OUTCOME argument.  Two modules bind the   *)
(* outcomes:                                                               *)
(*   MCCompress     - outcomes computed from an abstract input shape; TLC  *)
(*                    explores every interleaving of the monitor;          *)
(*   TraceCompress  - outcomes read from events recorded by the real       *)
(*                    binary (hooks under -DKJN_LBZIP2_VERIF).             *)
(* Both check the invariants defined at the end of this module.            *)
(***************************************************************************)
EXTENDS Naturals, Sequences, FiniteSets, TLC

VARIABLES
  cfg,          \* [W, TotIn, TotOut, Ultra, Thresh, Prio]: fixed during a run
  workUnits,    \* work_units                        (sched monitor)
  outSlots,     \* out_slots                         (sched monitor)
  inSlots,      \* in_slots                          (source monitor)
  eof,          \* eof                               (sched monitor)
  collQ,        \* coll_q: set of input blocks [pos, left, off]
  transQ,       \* trans_q: set of work blocks [pos, next, data, fill]
  reordQ,       \* reord_q
  order,        \* position of the next block to hand to the writer
  nextId,       \* next_id
  collectToken, \* collect_token
  unfinished,   \* unfinished_work (None or a work block)
  carry,        \* thread -> what it holds between two critical sections
  srcBuf,       \* 1 while the reader holds a buffer it has not delivered yet
  sinkQ,        \* output_q (sink monitor)
  acks,         \* buffers popped by the writer and not yet acknowledged
  written,      \* history: work blocks written, in order
  sizes         \* history: chunk ordinal -> size, as delivered by the reader

dvars == <<cfg, workUnits, outSlots, inSlots, eof, collQ, transQ, reordQ, order,
           nextId, collectToken, unfinished, carry, srcBuf, sinkQ, acks, written, sizes>>

None == [k |-> "none"]

PosLt(a, b) == a[1] < b[1] \/ (a[1] = b[1] /\ a[2] < b[2])
MinBy(S) == CHOOSE x \in S : \A y \in S : ~PosLt(y.pos, x.pos)
MinOf(S) == CHOOSE x \in S : \A y \in S : x <= y

---------------------------------------------------------------------------
(* Guards, exactly as can_*() in compress.c.                               *)
CanCollectSeq == /\ cfg.Ultra /\ collectToken
                 /\ (collQ # {} \/ (eof /\ unfinished # None))
                 /\ (workUnits > 0 \/ unfinished # None)
CanReorder == reordQ # {} /\ MinBy(reordQ).pos = order
CanTransmit == /\ transQ # {}
               /\ \/ outSlots > cfg.Thresh
                  \/ (outSlots > 0 /\ MinBy(transQ).pos = order)
CanCollect == ~cfg.Ultra /\ collQ # {} /\ workUnits > 0

Ready(task) == CASE task = "collect_seq" -> CanCollectSeq
                 [] task = "reorder"     -> CanReorder
                 [] task = "transmit"    -> CanTransmit
                 [] task = "collect"     -> CanCollect
                 [] OTHER                -> FALSE
\* select_task(): first ready task in the static priority list
Select == LET idx == {i \in 1..Len(cfg.Prio) : Ready(cfg.Prio[i])}
          IN IF idx = {} THEN "null" ELSE cfg.Prio[MinOf(idx)]
\* can_terminate()
Finished == eof /\ collQ = {} /\ workUnits = cfg.W /\ outSlots = cfg.TotOut

---------------------------------------------------------------------------
DInit(c, T) ==
  /\ cfg = c
  /\ workUnits = c.W /\ outSlots = c.TotOut /\ inSlots = c.TotIn /\ eof = FALSE
  /\ collQ = {} /\ transQ = {} /\ reordQ = {} /\ order = <<0, 0>> /\ nextId = 0
  /\ collectToken = TRUE /\ unfinished = None
  /\ carry = [t \in T |-> None]
  /\ srcBuf = 0 /\ sinkQ = <<>> /\ acks = 0 /\ written = <<>> /\ sizes = <<>>

\* (re)initialisation in primed form: `keep' = TRUE keeps the two variables that
\* compress.c's init() does not reset between operands (collect_token, unfinished_work)
DReset(c, T, keep) ==
  /\ cfg' = c
  /\ workUnits' = c.W /\ outSlots' = c.TotOut /\ inSlots' = c.TotIn /\ eof' = FALSE
  /\ collQ' = {} /\ transQ' = {} /\ reordQ' = {} /\ order' = <<0, 0>> /\ nextId' = 0
  /\ (IF keep THEN UNCHANGED <<collectToken, unfinished>>
              ELSE collectToken' = TRUE /\ unfinished' = None)
  /\ carry' = [t \in T |-> None]
  /\ srcBuf' = 0 /\ sinkQ' = <<>> /\ acks' = 0 /\ written' = <<>> /\ sizes' = <<>>

Carry(t) == IF t \in DOMAIN carry THEN carry[t] ELSE None
SetCarry(t, v) == [x \in (DOMAIN carry) \cup {t} |-> IF x = t THEN v ELSE carry[x]]

\* ---- reader (source_thread_proc, on_input_avail) ----
DSrcTake ==
  /\ inSlots > 0 /\ srcBuf = 0
  /\ inSlots' = inSlots - 1 /\ srcBuf' = 1
  /\ UNCHANGED <<cfg, workUnits, outSlots, eof, collQ, transQ, reordQ, order, nextId,
                 collectToken, unfinished, carry, sinkQ, acks, written, sizes>>
\* a read that returned nothing: the buffer goes straight back
DSrcEmpty ==
  /\ srcBuf = 1
  /\ inSlots' = inSlots + 1 /\ srcBuf' = 0
  /\ UNCHANGED <<cfg, workUnits, outSlots, eof, collQ, transQ, reordQ, order, nextId,
                 collectToken, unfinished, carry, sinkQ, acks, written, sizes>>
DAvail(size) ==
  /\ srcBuf = 1 /\ size > 0 /\ ~eof
  /\ collQ' = collQ \cup {[pos |-> <<nextId, 0>>, left |-> size, off |-> 0]}
  /\ nextId' = nextId + 1 /\ srcBuf' = 0
  /\ sizes' = Append(sizes, size)
  /\ UNCHANGED <<cfg, workUnits, outSlots, inSlots, eof, transQ, reordQ, order,
                 collectToken, unfinished, carry, sinkQ, acks, written>>
DEof ==
  /\ srcBuf = 0 /\ ~eof
  /\ eof' = TRUE
  /\ UNCHANGED <<cfg, workUnits, outSlots, inSlots, collQ, transQ, reordQ, order, nextId,
                 collectToken, unfinished, carry, srcBuf, sinkQ, acks, written, sizes>>

\* ---- do_collect ----
DCollectBegin(t) ==
  /\ Carry(t) = None /\ collQ # {} /\ workUnits > 0
  /\ LET ib == MinBy(collQ) IN
     /\ collQ' = collQ \ {ib}
     /\ carry' = SetCarry(t, [k |-> "c", ib |-> ib])
  /\ workUnits' = workUnits - 1
  /\ UNCHANGED <<cfg, outSlots, inSlots, eof, transQ, reordQ, order, nextId, collectToken,
                 unfinished, srcBuf, sinkQ, acks, written, sizes>>
\* collect() left `left2' > 0 bytes of the chunk: requeue it (critical section)
DCollectRequeue(t, left2) ==
  /\ Carry(t).k = "c"
  /\ LET ib == Carry(t).ib
         taken == ib.left - left2
     IN /\ left2 > 0 /\ left2 < ib.left         \* progress: a block is never empty
        /\ collQ' = collQ \cup {[pos |-> <<ib.pos[1], ib.pos[2] + 1>>, left |-> left2,
                                 off |-> ib.off + taken]}
        /\ carry' = SetCarry(t, [k |-> "c2",
                     wb |-> [pos |-> ib.pos, next |-> <<ib.pos[1], ib.pos[2] + 1>>,
                             data |-> << <<ib.pos[1], ib.off, taken>> >>, fill |-> taken]])
  /\ UNCHANGED <<cfg, workUnits, outSlots, inSlots, eof, transQ, reordQ, order, nextId,
                 collectToken, unfinished, srcBuf, sinkQ, acks, written, sizes>>
\* collect() consumed the rest of the chunk: source_release_buffer (source monitor)
DCollectRelease(t) ==
  /\ Carry(t).k = "c"
  /\ LET ib == Carry(t).ib IN
     carry' = SetCarry(t, [k |-> "c2",
                wb |-> [pos |-> ib.pos, next |-> <<ib.pos[1] + 1, 0>>,
                        data |-> << <<ib.pos[1], ib.off, ib.left>> >>, fill |-> ib.left]])
  /\ inSlots' = inSlots + 1
  /\ UNCHANGED <<cfg, workUnits, outSlots, eof, collQ, transQ, reordQ, order, nextId,
                 collectToken, unfinished, srcBuf, sinkQ, acks, written, sizes>>
DCollectEnd(t) ==
  /\ Carry(t).k = "c2"
  /\ transQ' = transQ \cup {Carry(t).wb}
  /\ carry' = SetCarry(t, None)
  /\ UNCHANGED <<cfg, workUnits, outSlots, inSlots, eof, collQ, reordQ, order, nextId,
                 collectToken, unfinished, srcBuf, sinkQ, acks, written, sizes>>

\* ---- do_collect_seq ----
DSeqBegin(t) ==
  /\ Carry(t) = None /\ collectToken
  \* a partly filled block is closed without further input only at end of input
  /\ (collQ # {} \/ (eof /\ unfinished # None))
  /\ (workUnits > 0 \/ unfinished # None)
  /\ (unfinished = None => collQ # {})           \* assert(iblk != NULL)
  /\ LET fresh == unfinished = None
         has == collQ # {}
         ib == IF has THEN MinBy(collQ) ELSE None
         wb == IF fresh THEN [pos |-> ib.pos, next |-> ib.pos, data |-> <<>>, fill |-> 0]
                        ELSE unfinished
     IN /\ collQ' = (IF has THEN collQ \ {ib} ELSE collQ)
        /\ workUnits' = (IF fresh THEN workUnits - 1 ELSE workUnits)
        /\ carry' = SetCarry(t, [k |-> "s", ib |-> ib, wb |-> wb])
  /\ unfinished' = None /\ collectToken' = FALSE
  /\ UNCHANGED <<cfg, outSlots, inSlots, eof, transQ, reordQ, order, nextId,
                 srcBuf, sinkQ, acks, written, sizes>>
SeqTake(wb, ib, taken, nxt) ==
  [wb EXCEPT !.data = IF taken > 0 THEN Append(@, <<ib.pos[1], ib.off, taken>>) ELSE @,
             !.fill = @ + taken, !.next = nxt]
DSeqRequeue(t, left2) ==
  /\ Carry(t).k = "s" /\ Carry(t).ib # None
  /\ LET ib == Carry(t).ib
         wb == Carry(t).wb
         taken == ib.left - left2
     IN /\ left2 > 0 /\ left2 <= ib.left        \* a full block may take nothing
        /\ collQ' = collQ \cup {[pos |-> <<ib.pos[1], ib.pos[2] + 1>>, left |-> left2,
                                 off |-> ib.off + taken]}
        /\ carry' = SetCarry(t, [k |-> "s2",
                       wb |-> SeqTake(wb, ib, taken, <<wb.next[1], wb.next[2] + 1>>)])
  /\ UNCHANGED <<cfg, workUnits, outSlots, inSlots, eof, transQ, reordQ, order, nextId,
                 collectToken, unfinished, srcBuf, sinkQ, acks, written, sizes>>
DSeqRelease(t) ==
  /\ Carry(t).k = "s" /\ Carry(t).ib # None
  /\ LET ib == Carry(t).ib
         wb == Carry(t).wb
     IN carry' = SetCarry(t, [k |-> "s2",
                     wb |-> SeqTake(wb, ib, ib.left, <<wb.next[1] + 1, 0>>)])
  /\ inSlots' = inSlots + 1
  /\ UNCHANGED <<cfg, workUnits, outSlots, eof, collQ, transQ, reordQ, order, nextId,
                 collectToken, unfinished, srcBuf, sinkQ, acks, written, sizes>>
\* no input block was taken (flush of the unfinished block at end of input)
SeqWb(t) == Carry(t).wb
SeqReady(t) == \/ Carry(t).k = "s2"
               \/ (Carry(t).k = "s" /\ Carry(t).ib = None)
DSeqPark(t) ==                                   \* !done: keep the block for later
  /\ SeqReady(t)
  /\ collectToken' = TRUE /\ unfinished' = SeqWb(t)
  /\ carry' = SetCarry(t, None)
  /\ UNCHANGED <<cfg, workUnits, outSlots, inSlots, eof, collQ, transQ, reordQ, order,
                 nextId, srcBuf, sinkQ, acks, written, sizes>>
DSeqToken(t) ==                                  \* done: pass the token, then encode
  /\ SeqReady(t)
  /\ collectToken' = TRUE
  /\ carry' = SetCarry(t, [k |-> "s3", wb |-> SeqWb(t)])
  /\ UNCHANGED <<cfg, workUnits, outSlots, inSlots, eof, collQ, transQ, reordQ, order,
                 nextId, unfinished, srcBuf, sinkQ, acks, written, sizes>>
DSeqEnd(t) ==
  /\ Carry(t).k = "s3"
  /\ transQ' = transQ \cup {Carry(t).wb}
  /\ carry' = SetCarry(t, None)
  /\ UNCHANGED <<cfg, workUnits, outSlots, inSlots, eof, collQ, reordQ, order, nextId,
                 collectToken, unfinished, srcBuf, sinkQ, acks, written, sizes>>

\* ---- do_transmit ----
DTransmitBegin(t) ==
  /\ Carry(t) = None /\ transQ # {} /\ outSlots > 0
  /\ LET wb == MinBy(transQ) IN
     /\ transQ' = transQ \ {wb}
     /\ carry' = SetCarry(t, [k |-> "t", wb |-> wb])
  /\ outSlots' = outSlots - 1
  /\ UNCHANGED <<cfg, workUnits, inSlots, eof, collQ, reordQ, order, nextId, collectToken,
                 unfinished, srcBuf, sinkQ, acks, written, sizes>>
DTransmitEnd(t) ==
  /\ Carry(t).k = "t"
  /\ workUnits' = workUnits + 1
  /\ reordQ' = reordQ \cup {Carry(t).wb}
  /\ carry' = SetCarry(t, None)
  /\ UNCHANGED <<cfg, outSlots, inSlots, eof, collQ, transQ, order, nextId, collectToken,
                 unfinished, srcBuf, sinkQ, acks, written, sizes>>

\* ---- do_reorder (one critical section, includes sink_write_buffer) ----
DReorder(t) ==
  /\ Carry(t) = None /\ reordQ # {}
  /\ LET wb == MinBy(reordQ) IN
     /\ wb.pos = order                           \* blocks reach the writer in stream order
     /\ reordQ' = reordQ \ {wb}
     /\ order' = wb.next
     /\ sinkQ' = Append(sinkQ, wb)
  /\ UNCHANGED <<cfg, workUnits, outSlots, inSlots, eof, collQ, transQ, nextId, collectToken,
                 unfinished, carry, srcBuf, acks, written, sizes>>

\* ---- writer (sink_thread_proc, on_write_complete) ----
DSinkPop ==
  /\ sinkQ # <<>> /\ acks = 0
  /\ written' = Append(written, Head(sinkQ))
  /\ sinkQ' = Tail(sinkQ) /\ acks' = 1
  /\ UNCHANGED <<cfg, workUnits, outSlots, inSlots, eof, collQ, transQ, reordQ, order, nextId,
                 collectToken, unfinished, carry, srcBuf, sizes>>
DWritten ==
  /\ acks = 1
  /\ outSlots' = outSlots + 1 /\ acks' = 0
  /\ UNCHANGED <<cfg, workUnits, inSlots, eof, collQ, transQ, reordQ, order, nextId,
                 collectToken, unfinished, carry, srcBuf, sinkQ, written, sizes>>

---------------------------------------------------------------------------
(* Invariants (property layer).                                            *)
Held(kinds) == Cardinality({t \in DOMAIN carry : carry[t].k \in kinds})
HeldIb == Cardinality({t \in DOMAIN carry : carry[t].k \in {"c", "s"} /\ carry[t].ib # None})

Bounds == /\ workUnits \in 0..cfg.W /\ outSlots \in 0..cfg.TotOut /\ inSlots \in 0..cfg.TotIn
\* fixed-capacity queues as sized by init() / init_io()
Capacity == /\ Cardinality(collQ) <= cfg.TotIn
            /\ Cardinality(transQ) <= cfg.W
            /\ Cardinality(reordQ) <= cfg.TotOut
            /\ Len(sinkQ) <= cfg.TotOut
\* every worker unit, output slot and input slot is either free or held by exactly one item
ConserveWork == workUnits + Cardinality(transQ) + Held({"c", "c2", "s", "s2", "s3", "t"})
                  + (IF unfinished = None THEN 0 ELSE 1) = cfg.W
ConserveOut == outSlots + Held({"t"}) + Cardinality(reordQ) + Len(sinkQ) + acks = cfg.TotOut
ConserveIn == inSlots + Cardinality(collQ) + HeldIb + srcBuf = cfg.TotIn
\* what reached the writer is a gap-free, duplicate-free prefix of the input, in order
Flat(seq) == LET F[i \in 0..Len(seq)] == IF i = 0 THEN <<>> ELSE F[i-1] \o seq[i].data
             IN F[Len(seq)]
Tiles(d) == /\ \A i \in 1..(Len(d) - 1) :
                 \/ (d[i][1] = d[i+1][1] /\ d[i][2] + d[i][3] = d[i+1][2])
                 \/ (d[i+1][1] = d[i][1] + 1 /\ d[i+1][2] = 0
                     /\ d[i][1] + 1 <= Len(sizes) /\ d[i][2] + d[i][3] = sizes[d[i][1] + 1])
            /\ (Len(d) > 0 => (d[1][1] = 0 /\ d[1][2] = 0))
            /\ \A i \in 1..Len(d) : d[i][3] > 0
OrderedOutput == Tiles(Flat(written \o sinkQ))
Complete(d) == IF Len(sizes) = 0 THEN d = <<>>
               ELSE /\ Len(d) > 0 /\ d[Len(d)][1] = Len(sizes) - 1
                    /\ d[Len(d)][2] + d[Len(d)][3] = sizes[Len(sizes)]
\* state in which uninit() may run and from which the next operand starts
Quiescent == /\ eof /\ workUnits = cfg.W /\ outSlots = cfg.TotOut /\ inSlots = cfg.TotIn
             /\ collQ = {} /\ transQ = {} /\ reordQ = {} /\ sinkQ = <<>> /\ acks = 0 /\ srcBuf = 0
             /\ collectToken /\ unfinished = None
             /\ \A t \in DOMAIN carry : carry[t] = None
             /\ Complete(Flat(written))

DataInv == Bounds /\ Capacity /\ ConserveWork /\ ConserveOut /\ ConserveIn /\ OrderedOutput
=============================================================================
