------------------------------- MODULE Prefix -------------------------------
(***************************************************************************)
(* Optimal length-limited prefix codes.                                    *)
(*   OptCost(f, L): minimum of sum f[i]*len[i] over ALL complete prefix    *)
(*                  codes (Kraft sum exactly 1) with lengths in 1..L - by  *)
(*                  enumeration, i.e. the definition.                      *)
(*   PMCost(f, L) : the same number computed by package-merge.             *)
(* TLC proves PMCost = OptCost on a small domain (mode "prove"); PMCost    *)
(* is then the oracle evaluated on the tables recovered from what the      *)
(* real binary wrote (mode "tables": a JSON list of [f, l] read from the   *)
(* file named by the environment variable TABLES).                         *)
(***************************************************************************)
EXTENDS Naturals, Sequences, SequencesExt, FiniteSets, TLC, Json, IOUtils

CONSTANTS Mode, MaxN, MaxF, MaxL

Lt(a, b) == a < b
Package(s) == [i \in 1..(Len(s) \div 2) |-> s[2 * i - 1] + s[2 * i]]
Merge(a, b) == SortSeq(a \o b, Lt)
RECURSIVE Level(_, _, _)
Level(leaves, cur, l) == IF l = 1 THEN cur ELSE Level(leaves, Merge(leaves, Package(cur)), l - 1)
SumFirst(s, k) == FoldLeft(LAMBDA a, b : a + b, 0, SubSeq(s, 1, k))
PMCost(freq, L) == LET leaves == SortSeq(freq, Lt)
                       n == Len(freq)
                   IN SumFirst(Level(leaves, leaves, L), 2 * n - 2)

Pow2(k) == 2 ^ k
Kraft(l, L) == FoldLeft(LAMBDA a, x : a + Pow2(L - x), 0, l)
Cost(l, f) == FoldLeft(LAMBDA a, i : a + l[i] * f[i], 0, [i \in 1..Len(l) |-> i])
OptCost(f, L) == LET n == Len(f)
                     C == {Cost(l, f) : l \in {v \in [1..n -> 1..L] : Kraft(v, L) = Pow2(L)}}
                 IN CHOOSE c \in C : \A d \in C : c <= d
Feasible(n, L) == Pow2(L) >= n

VARIABLE x
Init == x = 0
Next == x = 0 /\ x' = 1
Spec == Init /\ [][Next]_x

\* mode "prove": package-merge is optimal, for every frequency vector of the small domain
PMisOptimal ==
  (Mode = "prove" /\ x = 1) =>
    \A n \in 2..MaxN : \A f \in [1..n -> 0..MaxF] : \A L \in 1..MaxL :
       Feasible(n, L) => PMCost(f, L) = OptCost(f, L)

\* mode "tables": each recovered table is a complete code of optimal cost for its own maximal length
Tables == IF Mode = "tables" THEN JsonDeserialize(IOEnv.TABLES) ELSE <<>>
MaxOf(l) == FoldLeft(LAMBDA a, b : IF b > a THEN b ELSE a, 0, l)
TableOK(t) == LET L == MaxOf(t.l) IN
              /\ L <= 20
              /\ Kraft(t.l, 20) = Pow2(20)
              /\ Cost(t.l, t.f) = PMCost(t.f, L)
TablesOptimal ==
  (Mode = "tables" /\ x = 1) =>
    \A i \in 1..Len(Tables) :
       IF TableOK(Tables[i]) THEN TRUE
       ELSE PrintT(<<"SUBOPTIMAL", i, Cost(Tables[i].l, Tables[i].f), PMCost(Tables[i].f, MaxOf(Tables[i].l)), MaxOf(Tables[i].l)>>) /\ FALSE
=============================================================================
