-------------------------------- MODULE Cli --------------------------------
(***************************************************************************)
(* Option processing of lbzip2 (main.c: opts_setup, opts_outmode,          *)
(* opts_decompress): the invocation name sets the initial mode, tokens     *)
(* from the environment variables LBZIP2, BZIP2, BZIP (in that order) are  *)
(* placed before the command-line arguments, options are processed left    *)
(* to right, and the result is the mode a run operates in.  TLC            *)
(* enumerates every token sequence up to MaxTokens over Alphabet, crossed  *)
(* with every invocation name and with every way of moving a prefix of the *)
(* tokens into the environment, and prints the expected observable         *)
(* behaviour of each for replay against the real binary.                   *)
(***************************************************************************)
EXTENDS Naturals, Sequences, TLC, Json

CONSTANTS Alphabet,     \* set of tokens (strings)
          Names,        \* set of invocation names
          MaxTokens,
          Placements    \* subset of 0..3: how many leading tokens go into the environment (the driver splits them
                        \* over LBZIP2 / BZIP2 / BZIP in every consecutive way, with blanks and tabs before, between and
                        \* after them, and leaves token-less variables unset, empty or blank: all the same command line)

Init0(name) == [dec |-> name \in {"bunzip2", "lbunzip2", "bzcat", "lbzcat"},
                om |-> IF name \in {"bzcat", "lbzcat"} THEN "stdout" ELSE "regf",
                bs |-> 9, force |-> FALSE, keep |-> FALSE, ultra |-> FALSE,
                end |-> "run",          \* "run" | "fatal" | "usage" | "version"
                stop |-> FALSE,         \* "--" seen: everything after it is an operand
                needarg |-> FALSE,      \* "-n" / "-m" at the end of a token: the next token is its argument
                operands |-> 0]

\* -c / -t
OutMode(st, ch) == IF (IF ch = "c" THEN "discard" ELSE "stdout") = st.om THEN [st EXCEPT !.end = "fatal"]
                   ELSE IF ch = "c" THEN [st EXCEPT !.om = "stdout"]
                   ELSE [st EXCEPT !.om = "discard", !.dec = TRUE]
\* -d / -z
Decomp(st, ch) == [st EXCEPT !.dec = (ch = "d"), !.om = IF st.om = "discard" THEN "regf" ELSE st.om]

IsNumber(tok) == tok \in {"1", "2", "3", "4", "8", "16"}
\* one character of a short-option cluster; returns the new state ("rest" = characters after it)
Short(st, ch, rest) ==
  CASE ch \in {"c", "t"} -> OutMode(st, ch)
    [] ch \in {"d", "z"} -> Decomp(st, ch)
    [] ch \in {"1", "2", "3", "4", "5", "6", "7", "8", "9"} ->
         [st EXCEPT !.bs = CASE ch = "1" -> 1 [] ch = "2" -> 2 [] ch = "3" -> 3 [] ch = "4" -> 4 [] ch = "5" -> 5
                                [] ch = "6" -> 6 [] ch = "7" -> 7 [] ch = "8" -> 8 [] OTHER -> 9]
    [] ch = "f" -> [st EXCEPT !.force = TRUE]
    [] ch = "k" -> [st EXCEPT !.keep = TRUE]
    [] ch = "u" -> [st EXCEPT !.ultra = TRUE]
    [] ch \in {"s", "v", "q", "S"} -> st
    [] ch = "h" -> [st EXCEPT !.end = "usage"]
    [] ch \in {"L", "V"} -> [st EXCEPT !.end = "version"]
    [] ch \in {"n", "m"} -> IF rest = "" THEN [st EXCEPT !.needarg = TRUE]
                            ELSE IF IsNumber(rest) THEN st ELSE [st EXCEPT !.end = "fatal"]
    [] OTHER -> [st EXCEPT !.end = "fatal"]

\* a cluster is given as the sequence of its characters
RECURSIVE Cluster(_, _)
Cluster(st, chars) ==
  IF chars = <<>> \/ st.end # "run" THEN st
  ELSE LET ch == Head(chars)
           rest == IF Len(chars) >= 2 THEN chars[2] ELSE ""      \* (only -nN uses it; N is one token char group)
       IN IF ch \in {"n", "m"} THEN Short(st, ch, rest)           \* the rest of the token is the argument
          ELSE Cluster(Short(st, ch, ""), Tail(chars))

Long(st, name) ==
  CASE name = "stdout" -> OutMode(st, "c")
    [] name = "test" -> OutMode(st, "t")
    [] name = "decompress" -> Decomp(st, "d")
    [] name = "compress" -> Decomp(st, "z")
    [] name = "fast" -> [st EXCEPT !.bs = 1]
    [] name = "best" -> [st EXCEPT !.bs = 9]
    [] name = "force" -> [st EXCEPT !.force = TRUE]
    [] name = "keep" -> [st EXCEPT !.keep = TRUE]
    [] name = "sequential" -> [st EXCEPT !.ultra = TRUE]
    [] name \in {"small", "verbose", "quiet", "repetitive-fast", "repetitive-best", "exponential"} -> st
    [] name = "help" -> [st EXCEPT !.end = "usage"]
    [] name \in {"license", "version"} -> [st EXCEPT !.end = "version"]
    [] OTHER -> [st EXCEPT !.end = "fatal"]

\* tokens are records [kind, ...]: op(erand), long(name), short(chars), dashdash
Step(st, tok) ==
  IF st.end # "run" THEN st
  ELSE IF st.needarg THEN (IF tok.kind = "op" /\ tok.num THEN [st EXCEPT !.needarg = FALSE]
                           ELSE [st EXCEPT !.needarg = FALSE, !.end = "fatal"])
  ELSE IF st.stop THEN (IF tok.kind = "op" THEN [st EXCEPT !.operands = @ + 1] ELSE [st EXCEPT !.operands = @ + 1])
  ELSE CASE tok.kind = "op" -> [st EXCEPT !.operands = @ + 1]
         [] tok.kind = "dashdash" -> [st EXCEPT !.stop = TRUE]
         [] tok.kind = "long" -> Long(st, tok.name)
         [] OTHER -> Cluster(st, tok.chars)

RECURSIVE Fold(_, _)
Fold(st, toks) == IF toks = <<>> THEN st ELSE Fold(Step(st, Head(toks)), Tail(toks))

Final(name, toks) ==
  LET st == Fold(Init0(name), toks)
      st1 == IF st.end = "run" /\ st.needarg THEN [st EXCEPT !.end = "fatal"] ELSE st      \* "-n" with nothing after it
  IN IF st1.end = "run" /\ st1.om = "regf" /\ st1.operands = 0 THEN [st1 EXCEPT !.om = "stdout"] ELSE st1

---------------------------------------------------------------------------
Operand == [kind |-> "op", num |-> FALSE, text |-> "FILE"]
Seqs == UNION {[1..n -> Alphabet] : n \in 0..MaxTokens}

VARIABLES pick, phase
vars == <<pick, phase>>
Init == /\ pick \in {[name |-> nm, toks |-> s, env |-> e] : nm \in Names, s \in Seqs, e \in Placements}
        /\ pick.env <= Len(pick.toks)
        /\ phase = "new"
Next == phase = "new" /\ phase' = "done" /\ UNCHANGED pick
Spec == Init /\ [][Next]_vars

\* the operand always comes last (it may still be swallowed as the argument of a trailing "-n")
Expected(p) == LET f == Final(p.name, p.toks \o <<Operand>>) IN
               [name |-> p.name, toks |-> [i \in 1..Len(p.toks) |-> p.toks[i].text], env |-> p.env,
                end |-> f.end, dec |-> f.dec, om |-> f.om, bs |-> f.bs, keep |-> f.keep, force |-> f.force,
                ultra |-> f.ultra, operands |-> f.operands]
Export == phase = "done" => PrintT(<<"BEHAVIOUR", ToJson(Expected(pick))>>)
=============================================================================
