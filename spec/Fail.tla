-------------------------------- MODULE Fail --------------------------------
(***************************************************************************)
(* lbzip2 as a filter (standard input to standard output) with one I/O     *)
(* call failing: the error protocol of process.c / signals.c / main.c.     *)
(*                                                                         *)
(* Threads: the reader (source_thread_proc -> xread), the writer           *)
(* (sink_thread_proc -> xwrite), the workers (collapsed into one: they     *)
(* turn what was read into what is to be written and, when everything has  *)
(* been written, join the I/O threads and raise SIGUSR2) and the main      *)
(* thread, which sits in sigsuspend() (halt()) with SIGUSR1/SIGUSR2        *)
(* deliverable and SIGPIPE/SIGXFSZ blocked.                                *)
(*                                                                         *)
(* A failing call in a sub-thread runs failfx() -> bailout():              *)
(*   Report   print the diagnostic unless errno is EPIPE or EFBIG          *)
(*   Promote  re-raise for the process any SIGPIPE/SIGXFSZ pending on the  *)
(*            thread (the kernel generated it for the thread together with *)
(*            EPIPE/EFBIG unless the signal is ignored)                    *)
(*   Usr1     raise SIGUSR1 for the process and leave the thread           *)
(* each a separate step, so that TLC interleaves them with the other       *)
(* threads.  The main thread wakes up, and for SIGUSR1 runs bailout()      *)
(* itself: unblocking SIGPIPE/SIGXFSZ kills the process if one is pending  *)
(* with the default action, otherwise _exit(1).                            *)
(*                                                                         *)
(* tools/checks/c21.py replays every (operation, errno, disposition)       *)
(* behaviour at every concrete read/write call position of real runs.      *)
(***************************************************************************)
EXTENDS Naturals, FiniteSets, TLC, Json

CONSTANTS NItems,    \* data reads (each yields one write); read NItems+1 returns end of file
          Slots      \* read-ahead bound

Silent == {"EPIPE", "EFBIG"}
Errnos == {"EIO", "ENOSPC", "EPIPE", "EFBIG"}
SigOf(e) == IF e = "EPIPE" THEN {"PIPE"} ELSE IF e = "EFBIG" THEN {"XFSZ"} ELSE {}
Plans == {[op |-> "none", k |-> 0, err |-> "EIO"]}
         \cup [op : {"read"}, k : 1..(NItems + 1), err : {"EIO"}]
         \cup [op : {"write"}, k : 1..NItems, err : Errnos]

VARIABLES plan, ign,          \* the fault of this behaviour; SIGPIPE/SIGXFSZ inherited as ignored
          rd, done, wr,       \* read calls completed, items processed, write calls completed
          st,                 \* st[t]: "run" | "report" | "promote" | "usr1" | "dead" | "done"
          thrPend,            \* thrPend[t]: signals pending on sub-thread t (blocked there)
          procPend,           \* signals pending on the process
          main,               \* "suspended" | "bail" | "finish" | "exited"
          diag, result
vars == <<plan, ign, rd, done, wr, st, thrPend, procPend, main, diag, result>>
Sub == {"src", "snk", "wrk"}

Init == /\ plan \in Plans /\ ign \in BOOLEAN
        /\ rd = 0 /\ done = 0 /\ wr = 0
        /\ st = [t \in Sub |-> "run"] /\ thrPend = [t \in Sub |-> {}] /\ procPend = {}
        /\ main = "suspended" /\ diag = FALSE /\ result = "running"

Alive == result = "running"
Hit(op, k) == plan.op = op /\ plan.k = k

\* ------------------------------------------------------------------ reader
SrcRead == /\ Alive /\ st["src"] = "run" /\ rd - wr < Slots
           /\ IF Hit("read", rd + 1)
              THEN st' = [st EXCEPT !["src"] = "report"] /\ UNCHANGED <<rd>>
              ELSE /\ rd' = rd + 1
                   /\ st' = [st EXCEPT !["src"] = IF rd' = NItems + 1 THEN "done" ELSE "run"]
           /\ UNCHANGED <<plan, ign, done, wr, thrPend, procPend, main, diag, result>>

\* ------------------------------------------------------------------ workers
Work == /\ Alive /\ st["wrk"] = "run" /\ done < rd /\ done < NItems
        /\ done' = done + 1
        /\ UNCHANGED <<plan, ign, rd, wr, st, thrPend, procPend, main, diag, result>>

\* all input seen, everything written: join reader and writer, raise SIGUSR2
Complete == /\ Alive /\ st["wrk"] = "run" /\ st["src"] = "done" /\ wr = NItems /\ st["snk"] = "run"
            /\ st' = [st EXCEPT !["wrk"] = "done", !["snk"] = "done"]
            /\ procPend' = procPend \cup {"USR2"}
            /\ UNCHANGED <<plan, ign, rd, done, wr, thrPend, main, diag, result>>

\* ------------------------------------------------------------------ writer
SnkWrite == /\ Alive /\ st["snk"] = "run" /\ wr < done
            /\ IF Hit("write", wr + 1)
               THEN /\ st' = [st EXCEPT !["snk"] = "report"]
                    \* the kernel generates the signal for the calling thread unless it is ignored
                    /\ thrPend' = [thrPend EXCEPT !["snk"] = IF ign THEN {} ELSE SigOf(plan.err)]
                    /\ UNCHANGED wr
               ELSE wr' = wr + 1 /\ UNCHANGED <<st, thrPend>>
            /\ UNCHANGED <<plan, ign, rd, done, procPend, main, diag, result>>

\* ------------------------------------------------------------------ failfx() / bailout() in a sub-thread
Report(t) == /\ Alive /\ st[t] = "report"
             /\ diag' = (diag \/ plan.err \notin Silent)
             /\ st' = [st EXCEPT ![t] = "promote"]
             /\ UNCHANGED <<plan, ign, rd, done, wr, thrPend, procPend, main, result>>
Promote(t) == /\ Alive /\ st[t] = "promote"
              /\ procPend' = procPend \cup thrPend[t]
              /\ st' = [st EXCEPT ![t] = "usr1"]
              /\ UNCHANGED <<plan, ign, rd, done, wr, thrPend, main, diag, result>>
Usr1(t) == /\ Alive /\ st[t] = "usr1"
           /\ procPend' = procPend \cup {"USR1"}
           /\ st' = [st EXCEPT ![t] = "dead"]
           /\ UNCHANGED <<plan, ign, rd, done, wr, thrPend, main, diag, result>>

\* ------------------------------------------------------------------ main thread
\* sigsuspend() returns after the handlers of all deliverable pending signals ran; which one ran last
\* (and so decides) is not specified by POSIX: any of them.
MainWake == /\ Alive /\ main = "suspended" /\ procPend \cap {"USR1", "USR2"} # {}
            /\ \E s \in procPend \cap {"USR1", "USR2"} :
                 main' = (IF s = "USR1" THEN "bail" ELSE "finish")
            /\ procPend' = procPend \ {"USR1", "USR2"}
            /\ UNCHANGED <<plan, ign, rd, done, wr, st, thrPend, diag, result>>
\* bailout() on the main thread: unblock SIGPIPE/SIGXFSZ (default action kills), else _exit(1)
MainBail == /\ Alive /\ main = "bail"
            /\ result' = (IF "PIPE" \in procPend /\ ~ign THEN "sigpipe"
                          ELSE IF "XFSZ" \in procPend /\ ~ign THEN "sigxfsz" ELSE "exit1")
            /\ main' = "exited"
            /\ UNCHANGED <<plan, ign, rd, done, wr, st, thrPend, procPend, diag>>
MainFinish == /\ Alive /\ main = "finish"
              /\ result' = "exit0" /\ main' = "exited"
              /\ UNCHANGED <<plan, ign, rd, done, wr, st, thrPend, procPend, diag>>

Next == SrcRead \/ Work \/ Complete \/ SnkWrite \/ (\E t \in Sub : Report(t) \/ Promote(t) \/ Usr1(t))
        \/ MainWake \/ MainBail \/ MainFinish
Spec == Init /\ [][Next]_vars
FairSpec == Spec /\ WF_vars(Next)

\* ------------------------------------------------------------------ C21
Terminal == result # "running"
Faulty == plan.op # "none"
Expected == IF ~Faulty THEN "exit0"
            ELSE IF plan.err = "EPIPE" /\ ~ign THEN "sigpipe"
            ELSE IF plan.err = "EFBIG" /\ ~ign THEN "sigxfsz" ELSE "exit1"
NeverSuccessAfterFailure == (Terminal /\ Faulty) => result # "exit0"
StatusAsDocumented == Terminal => result = Expected
DiagnosticRule == (Terminal /\ Faulty) => (diag <=> plan.err \notin Silent)
\* the two wake-up signals never compete: success is only signalled when no call failed
NeverBoth == ~({"USR1", "USR2"} \subseteq procPend)
\* a failed write is the last write
NoWriteAfterFailedWrite == (plan.op = "write" /\ st["snk"] # "run" /\ st["snk"] # "done") => wr = plan.k - 1
Terminates == <>Terminal                       \* "never hangs" (under FairSpec)
Export == Terminal => PrintT(<<"BEHAVIOUR", ToJson([op |-> plan.op, err |-> plan.err, ign |-> ign,
                                                     result |-> result, diag |-> diag])>>)
=============================================================================
