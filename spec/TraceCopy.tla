----------------------------- MODULE TraceCopy -----------------------------
(* Trace validation of the -cdf copy loop: events recorded by the hooks in process.c against Copy. *)
EXTENDS Copy, Json, IOUtils
CONSTANTS Strict, MaxTid
TraceLog == ndJsonDeserialize(IOEnv.TRACE)
VARIABLES l, terms, srcTid
tvars == <<cvars, l, terms, srcTid>>
Ev == TraceLog[l]
Bit(m, b) == (m \div b) - 2 * (m \div (2 * b)) = 1
Sched == Bit(Ev.mon, 1)
Source == Bit(Ev.mon, 2)
Sink == Bit(Ev.mon, 4)
Must(cond, name) == IF cond THEN TRUE ELSE PrintT(<<"REJECT", l, Ev.e, name>>) /\ FALSE
Is(name) == l <= Len(TraceLog) /\ Ev.e = name
Step == l' = l + 1
Keep == UNCHANGED <<terms, srcTid>>

Init == CInit /\ l = 1 /\ terms = 0 /\ srcTid = 0 - 1 + 1000
Fresh == /\ inSlots' = TotIn /\ outSlots' = TotOut /\ eof' = FALSE /\ srcBuf' = 0 /\ sinkQ' = <<>> /\ acks' = 0
         /\ written' = <<>> /\ nread' = 0 /\ usr2' = 0 /\ relpend' = 0 /\ terms' = 0 /\ srcTid' = 1000
TReset == Is("Reset") /\ Step /\ Fresh
TStart == Is("Start") /\ Step /\ Must(Ev.d = 1, "decompression run") /\ Fresh
TCopyInit == /\ Is("CopyInit") /\ Step /\ Must(Ev.tin = TotIn /\ Ev.tout = TotOut, "two input and two output slots") /\ Fresh
TSrcTake == /\ Is("SrcTake") /\ Step /\ Must(Source, "source_mutex held") /\ CSrcTake
            /\ Must(Ev.is = inSlots', "in_slots") /\ srcTid' = Ev.tid /\ UNCHANGED terms
TCopyAvail == /\ Is("CopyAvail") /\ Step /\ Must(Sched, "sched_mutex held") /\ Must(srcBuf = 1, "the reader holds a buffer")
              /\ CAvail /\ Must(Ev.os = outSlots' \/ (outSlots' = -1 /\ Ev.os > 1000000), "out_slots") /\ Keep
TSinkPush == /\ Is("SinkPush") /\ Step /\ Must(Sink, "sink_mutex held") /\ Must(Ev.n <= Len(sinkQ) /\ Ev.n <= TotOut, "size(output_q)")
             /\ UNCHANGED cvars /\ Keep
TSinkPop == /\ Is("SinkPop") /\ Step /\ Must(Sink, "sink_mutex held") /\ Must(sinkQ # <<>>, "output_q not empty") /\ CSinkPop /\ Keep
TSrcRel == /\ Is("SrcRel") /\ Step /\ Must(Source, "source_mutex held")
           /\ (IF Ev.tid = srcTid THEN CSrcEmpty ELSE CRelease)
           /\ Must(Ev.is = inSlots', "in_slots") /\ Keep
TCopyWritten == /\ Is("CopyWritten") /\ Step /\ Must(Sched, "sched_mutex held") /\ Must(acks = 1 /\ relpend = 1, "buffer written and released")
                /\ CWritten /\ Must(Ev.os = outSlots', "out_slots") /\ Keep
TEof == /\ Is("Eof") /\ Step /\ Must(Sched, "sched_mutex held") /\ CEof /\ Keep
TCopyTerm == /\ Is("CopyTerm") /\ Step /\ Must(Sched, "sched_mutex held")
             /\ Must(terms + 1 = usr2, "SIGUSR2 raised exactly when eof and all output slots are free")
             /\ terms' = terms + 1 /\ UNCHANGED <<cvars, srcTid>>
TSinkFinish == Is("SinkFinish") /\ Step /\ Must(Sink, "sink_mutex held") /\ UNCHANGED cvars /\ Keep
TSinkExit == Is("SinkExit") /\ Step /\ Must(sinkQ = <<>> /\ acks = 0, "writer leaves with nothing pending") /\ UNCHANGED cvars /\ Keep
TSrcStop == Is("SrcStop") /\ Step /\ UNCHANGED cvars /\ Keep
TCopyUninit == /\ Is("CopyUninit") /\ Step
               /\ Must(usr2 = 1 /\ terms = 1, "main thread released exactly once")
               /\ Must(eof /\ Len(written) = nread /\ inSlots = TotIn /\ outSlots = TotOut, "everything written, all slots returned")
               /\ Must(Ev.eof = 1 /\ Ev.os = TotOut /\ Ev.is = TotIn, "logged end state")
               /\ Must(("heapk" \in DOMAIN Ev) => Ev.heapk <= 64, "the heap is back to its size at the start of the run")
               /\ UNCHANGED cvars /\ Keep
\* the main thread's path through main.c / signals.c (validated by TraceCrash.tla) is stuttering here
MainPathEv == {"OpIn", "Cli", "OpOut", "Worked", "Halt", "OutDone", "InRm", "Sti", "StiDone", "InDone", "Exit", "Cleanup", "Terminate", "BailoutMain", "BailoutSub"}
TMainPath == l <= Len(TraceLog) /\ Ev.e \in MainPathEv /\ Step /\ UNCHANGED cvars /\ Keep

\* the capacities the code allocated for its deques are the ones the model's capacity invariants assume
TQueueCaps == /\ Is("QueueCaps") /\ Step
              /\ Must(("output_q" \in DOMAIN Ev) => Ev.output_q = TotOut, "output_q holds TotOut entries")
              /\ UNCHANGED cvars /\ Keep

Next == TQueueCaps \/ TMainPath \/ TReset \/ TStart \/ TCopyInit \/ TSrcTake \/ TCopyAvail \/ TSinkPush \/ TSinkPop \/ TSrcRel \/ TCopyWritten
        \/ TEof \/ TCopyTerm \/ TSinkFinish \/ TSinkExit \/ TSrcStop \/ TCopyUninit
Spec == Init /\ [][Next]_tvars
NotAccepted == l <= Len(TraceLog)
TraceInv == CDataInv
=============================================================================
