--------------------------- MODULE TraceCompress ---------------------------
(***************************************************************************)
(* Trace validation of lbzip2 compression runs: every event recorded by    *)
(* the hooks in process.c / compress.c must be explained by the action of  *)
(* Compress it names, with the logged post-state scalars equal to the      *)
(* specification's post-state, and the invariants of Compress hold after   *)
(* every event.                                                            *)
(*                                                                         *)
(* Two layers: with Strict = FALSE only the property layer is checked      *)
(* (capacity, conservation, order, monitor discipline, reset state); with  *)
(* Strict = TRUE additionally the scheduling policy (the task begun is the *)
(* one select_task() of the model picks; a worker waits only when nothing  *)
(* is runnable and leaves only when finished).                             *)
(***************************************************************************)
EXTENDS Compress, Json, IOUtils

CONSTANTS Strict, MaxTid

TraceLog == ndJsonDeserialize(IOEnv.TRACE)

VARIABLES l,          \* index of the next event
          meta,       \* block position -> [weight, size, crch, crcl] as logged when encoded
          rss,        \* not used for matching; kept so a counterexample shows it
          nrun        \* executions seen so far
tvars == <<dvars, l, meta, rss, nrun>>

Ev == TraceLog[l]
Tids == 0..MaxTid
Bit(m, b) == (m \div b) - 2 * (m \div (2 * b)) = 1
Sched == Bit(Ev.mon, 1)
Source == Bit(Ev.mon, 2)
Sink == Bit(Ev.mon, 4)
Pos(a, b) == <<a, b>>

\* a named check: prints the reason when it fails (traces are linear, so a failed
\* check in a matched event is the rejection)
Must(cond, name) == IF cond THEN TRUE ELSE PrintT(<<"REJECT", l, Ev.e, name>>) /\ FALSE
Is(name) == l <= Len(TraceLog) /\ Ev.e = name
Step == l' = l + 1
Policy(cond, name) == IF Strict THEN Must(cond, name) ELSE TRUE

\* logged post-state equals the specification's post-state
Scalars ==
  /\ Must(Ev.wu = workUnits', "work_units") /\ Must(Ev.os = outSlots', "out_slots")
  /\ Must(Ev.cq = Cardinality(collQ'), "size(coll_q)")
  /\ Must(Ev.tq = Cardinality(transQ'), "size(trans_q)")
  /\ Must(Ev.rq = Cardinality(reordQ'), "size(reord_q)")
  /\ Must((Ev.ct = 1) = collectToken', "collect_token")
  /\ Must((Ev.uf = 1) = (unfinished' # None), "unfinished_work")
  /\ Must(Pos(Ev.omaj, Ev.omin) = order', "order")
  /\ Must((Ev.eof = 1) = eof', "eof")
  \* memory: an encoder exists only while its work unit is held, an output buffer only
  \* while its slot is held
  /\ Must(Ev.lenc <= cfg'.W - workUnits', "live encoders <= held work units")
  /\ Must(Ev.lout <= cfg'.TotOut - outSlots', "live output buffers <= held slots")

Init == /\ DInit([W |-> 0, TotIn |-> 0, TotOut |-> 0, Ultra |-> FALSE, Thresh |-> 0, Prio |-> <<>>], Tids)
        /\ l = 1 /\ meta = <<>> /\ rss = 0 /\ nrun = 0

Keep == UNCHANGED <<meta, rss, nrun>>

\* a new process: full reset (inserted by the tool between recorded executions)
TReset == /\ Is("Reset") /\ Step
          /\ DReset([W |-> 0, TotIn |-> 0, TotOut |-> 0, Ultra |-> FALSE, Thresh |-> 0, Prio |-> <<>>], Tids, FALSE)
          /\ meta' = <<>> /\ UNCHANGED <<rss, nrun>>
\* work(): the next operand of the same process
TStart == /\ Is("Start") /\ Step
          \* C13: what a run may hold is linear in the worker count, with buffers no larger than one maximal block / I/O block
          /\ Must(Ev.og <= 900000 /\ Ev.ig <= 1048576 /\ Ev.tout <= 32 * Ev.W + 8 /\ Ev.tin <= 8 * Ev.W + 8,
                  "slot totals linear in the worker count, buffer sizes within one block")
          /\ Must(Ev.d = 0, "compression run")
          /\ Must(\A t \in Tids : Carry(t) = None, "no job in flight")
          /\ DReset([W |-> Ev.W, TotIn |-> Ev.tin, TotOut |-> Ev.tout, Ultra |-> (Ev.ultra = 1),
                     Thresh |-> 0, Prio |-> <<>>], Tids, TRUE)
          /\ meta' = <<>> /\ nrun' = nrun + 1 /\ UNCHANGED rss
\* compress.c init()
TInit == /\ Is("Init") /\ Step
         /\ Must(Ev.W = cfg.W /\ Ev.tin = cfg.TotIn /\ Ev.tout = cfg.TotOut, "queue capacities = slot totals")
         /\ cfg' = [cfg EXCEPT !.Thresh = Ev.thresh, !.Prio = Ev.tasks]
         /\ UNCHANGED <<workUnits, outSlots, inSlots, eof, collQ, transQ, reordQ, order, nextId,
                        collectToken, unfinished, carry, srcBuf, sinkQ, acks, written, sizes>>
         /\ Scalars /\ Keep

\* ---- reader ----
TSrcTake == /\ Is("SrcTake") /\ Step /\ Must(Source, "source_mutex held")
            /\ DSrcTake /\ Must(Ev.is = inSlots', "in_slots") /\ Keep
TSrcRel == /\ Is("SrcRel") /\ Step /\ Must(Source, "source_mutex held")
           /\ (IF Carry(Ev.tid).k = "c" THEN DCollectRelease(Ev.tid)
               ELSE IF Carry(Ev.tid).k = "s" THEN DSeqRelease(Ev.tid)
               ELSE DSrcEmpty)
           /\ Must(Ev.is = inSlots', "in_slots") /\ Keep
TAvail == /\ Is("Avail") /\ Step /\ Must(Sched, "sched_mutex held")
          /\ Must(Ev.maj = nextId /\ Ev.min = 0, "chunk ordinal")
          /\ DAvail(Ev.left) /\ Scalars /\ Keep
TEof == /\ Is("Eof") /\ Step /\ Must(Sched, "sched_mutex held") /\ DEof /\ Keep

\* ---- workers ----
TWStart == /\ Is("WStart") /\ Step /\ Must(Sched, "sched_mutex held") /\ UNCHANGED dvars /\ Keep
TWWait == /\ Is("WWait") /\ Step /\ Must(Sched, "sched_mutex held")
          /\ Must(Carry(Ev.tid) = None, "waiting worker holds no job")
          /\ Policy(Select = "null" /\ ~Finished, "wait only when nothing is runnable")
          /\ UNCHANGED dvars /\ Keep
TWWake == /\ Is("WWake") /\ Step /\ Must(Sched, "sched_mutex held") /\ UNCHANGED dvars /\ Keep
TWExit == /\ Is("WExit") /\ Step /\ Must(Sched, "sched_mutex held")
          /\ Must(Carry(Ev.tid) = None, "leaving worker holds no job")
          /\ Policy(Finished, "leave only when finished")
          /\ UNCHANGED dvars /\ Keep

Begin(task) == /\ Must(Sched, "sched_mutex held")
               /\ Policy(Select = task, "task = select_task()")

TCollectBegin == /\ Is("CollectBegin") /\ Step /\ Begin("collect")
                 /\ Must(collQ # {}, "coll_q not empty")
                 /\ Must(MinBy(collQ).pos = Pos(Ev.maj, Ev.min) /\ MinBy(collQ).left = Ev.left, "head of coll_q")
                 /\ DCollectBegin(Ev.tid) /\ Scalars /\ Keep
TCollectRequeue == /\ Is("CollectRequeue") /\ Step /\ Must(Sched, "sched_mutex held")
                   /\ Must(Carry(Ev.tid).k = "c", "thread is collecting")
                   /\ Must(Pos(Ev.maj, Ev.min) = <<Carry(Ev.tid).ib.pos[1], Carry(Ev.tid).ib.pos[2] + 1>>, "requeued position")
                   /\ DCollectRequeue(Ev.tid, Ev.left) /\ Scalars /\ Keep
Encoded(wb) == /\ Must(wb.pos = Pos(Ev.maj, Ev.min), "block position")
               /\ Must(wb.next = Pos(Ev.nmaj, Ev.nmin), "next position")
               /\ Must(wb.fill = Ev.weight, "input bytes in block")
SetMeta(pos) == meta' = Append(meta, [pos |-> pos, weight |-> Ev.weight, size |-> Ev.size, crch |-> Ev.crch, crcl |-> Ev.crcl])
TCollectEnd == /\ Is("CollectEnd") /\ Step /\ Must(Sched, "sched_mutex held")
               /\ Must(Carry(Ev.tid).k = "c2", "thread has collected")
               /\ Encoded(Carry(Ev.tid).wb)
               /\ DCollectEnd(Ev.tid) /\ Scalars /\ SetMeta(Carry(Ev.tid).wb.pos) /\ UNCHANGED <<rss, nrun>>

TSeqBegin == /\ Is("SeqBegin") /\ Step /\ Begin("collect_seq")
             /\ Must((Ev.fresh = 1) = (unfinished = None), "fresh block")
             /\ Must((Ev.has = 1) = (collQ # {}), "input block taken")
             /\ Must(collQ # {} \/ (eof /\ unfinished # None), "a partly filled block is closed without input only at end of input")
             /\ Must(collectToken, "collect token free")
             /\ (IF collQ # {} THEN Must(MinBy(collQ).pos = Pos(Ev.maj, Ev.min) /\ MinBy(collQ).left = Ev.left, "head of coll_q") ELSE TRUE)
             /\ DSeqBegin(Ev.tid) /\ Scalars /\ Keep
TSeqRequeue == /\ Is("SeqRequeue") /\ Step /\ Must(Sched, "sched_mutex held")
               /\ Must(Carry(Ev.tid).k = "s" /\ Carry(Ev.tid).ib # None, "thread is collecting")
               /\ DSeqRequeue(Ev.tid, Ev.left) /\ Scalars /\ Keep
TSeqPark == /\ Is("SeqPark") /\ Step /\ Must(Sched, "sched_mutex held")
            /\ Must(SeqReady(Ev.tid), "thread has collected")
            /\ Encoded(SeqWb(Ev.tid))
            /\ DSeqPark(Ev.tid) /\ Scalars /\ Keep
TSeqToken == /\ Is("SeqToken") /\ Step /\ Must(Sched, "sched_mutex held")
             /\ Must(SeqReady(Ev.tid), "thread has collected")
             /\ Encoded(SeqWb(Ev.tid))
             /\ DSeqToken(Ev.tid) /\ Scalars /\ Keep
TSeqEnd == /\ Is("SeqEnd") /\ Step /\ Must(Sched, "sched_mutex held")
           /\ Must(Carry(Ev.tid).k = "s3", "thread is encoding")
           /\ Encoded(Carry(Ev.tid).wb)
           /\ DSeqEnd(Ev.tid) /\ Scalars /\ SetMeta(Carry(Ev.tid).wb.pos) /\ UNCHANGED <<rss, nrun>>

TTransmitBegin == /\ Is("TransmitBegin") /\ Step /\ Begin("transmit")
                  /\ Must(transQ # {}, "trans_q not empty")
                  /\ Must(MinBy(transQ).pos = Pos(Ev.maj, Ev.min), "head of trans_q")
                  /\ DTransmitBegin(Ev.tid) /\ Scalars /\ Keep
TTransmitEnd == /\ Is("TransmitEnd") /\ Step /\ Must(Sched, "sched_mutex held")
                /\ Must(Carry(Ev.tid).k = "t" /\ Carry(Ev.tid).wb.pos = Pos(Ev.maj, Ev.min), "thread is transmitting this block")
                /\ DTransmitEnd(Ev.tid) /\ Scalars /\ Keep
MetaOf(pos) == LET S == {i \in 1..Len(meta) : meta[i].pos = pos} IN meta[CHOOSE i \in S : TRUE]
TReorder == /\ Is("Reorder") /\ Step /\ Begin("reorder")
            /\ Must(reordQ # {}, "reord_q not empty")
            /\ Must(MinBy(reordQ).pos = Pos(Ev.maj, Ev.min), "head of reord_q")
            /\ Must(MinBy(reordQ).pos = order, "block is the next in stream order")
            /\ Must(MinBy(reordQ).next = Pos(Ev.nmaj, Ev.nmin), "next position")
            \* the block handed to the writer is the block that was encoded at this position
            /\ LET m == MetaOf(Pos(Ev.maj, Ev.min)) IN
               Must(m.weight = Ev.weight /\ m.size = Ev.size /\ m.crch = Ev.crch /\ m.crcl = Ev.crcl, "block identity (weight, size, crc)")
            /\ DReorder(Ev.tid) /\ Scalars /\ Keep

\* ---- writer ----
TSinkPush == /\ Is("SinkPush") /\ Step /\ Must(Sink, "sink_mutex held")
             \* (the writer may pop between the Reorder event and the physical push)
             /\ Must(Ev.n <= Len(sinkQ) /\ Ev.n <= cfg.TotOut, "size(output_q)")
             /\ Must(sinkQ # <<>> /\ MetaOf(sinkQ[Len(sinkQ)].pos).size = Ev.size, "pushed buffer is the reordered block")
             /\ UNCHANGED dvars /\ Keep
TSinkPop == /\ Is("SinkPop") /\ Step /\ Must(Sink, "sink_mutex held")
            /\ Must(sinkQ # <<>>, "output_q not empty")
            /\ Must(MetaOf(Head(sinkQ).pos).size = Ev.size, "popped buffer is the oldest block")
            /\ DSinkPop /\ Must(Ev.n <= Len(sinkQ'), "size(output_q)") /\ Keep
TWritten == /\ Is("Written") /\ Step /\ Must(Sched, "sched_mutex held") /\ DWritten /\ Scalars /\ Keep
TSinkFinish == /\ Is("SinkFinish") /\ Step /\ Must(Sink, "sink_mutex held") /\ UNCHANGED dvars /\ Keep
TSinkExit == /\ Is("SinkExit") /\ Step /\ Must(sinkQ = <<>> /\ acks = 0, "writer leaves with nothing pending")
             /\ UNCHANGED dvars /\ Keep

\* ---- end of run ----
TFini == /\ Is("Fini") /\ Step /\ Must(Quiescent, "state at uninit() is the reset state") /\ UNCHANGED dvars /\ Keep
TUninit == /\ Is("Uninit") /\ Step
           /\ Must(Quiescent, "state at uninit() is the reset state")
           /\ Must(Ev.wu = cfg.W /\ Ev.os = cfg.TotOut /\ Ev.is = cfg.TotIn /\ Ev.eof = 1, "all units and slots returned")
           /\ Must(Ev.live[1] = 0 /\ Ev.live[2] = 0 /\ Ev.live[3] = 0, "no buffer outlives the run")
           /\ Must(Ev.peak[1] <= cfg.TotIn /\ Ev.peak[2] <= cfg.W /\ Ev.peak[3] <= cfg.TotOut, "peak buffers within slot totals")
           /\ Must(("heapk" \in DOMAIN Ev) => Ev.heapk <= 64 + 4 * cfg.W,
                   "the heap is back to its size at the start of the run (nothing allocated for the run outlives it)")
           /\ rss' = Ev.rss /\ UNCHANGED <<dvars, meta, nrun>>

\* the main thread's path through main.c / signals.c (validated by TraceCrash.tla) is stuttering here
MainPathEv == {"OpIn", "Cli", "OpOut", "Worked", "Halt", "OutDone", "InRm", "Sti", "StiDone", "InDone", "Exit", "Cleanup", "Terminate", "BailoutMain", "BailoutSub"}
TMainPath == l <= Len(TraceLog) /\ Ev.e \in MainPathEv /\ Step /\ UNCHANGED dvars /\ Keep

\* the capacities the code allocated for its deques are the ones the model's capacity invariants assume
TQueueCaps == /\ Is("QueueCaps") /\ Step
              /\ Must(("output_q" \in DOMAIN Ev) => Ev.output_q = cfg.TotOut, "output_q holds TotOut entries")
              /\ UNCHANGED dvars /\ Keep

Next == \/ TQueueCaps \/ TMainPath \/ TReset \/ TStart \/ TInit \/ TSrcTake \/ TSrcRel \/ TAvail \/ TEof
        \/ TWStart \/ TWWait \/ TWWake \/ TWExit
        \/ TCollectBegin \/ TCollectRequeue \/ TCollectEnd
        \/ TSeqBegin \/ TSeqRequeue \/ TSeqPark \/ TSeqToken \/ TSeqEnd
        \/ TTransmitBegin \/ TTransmitEnd \/ TReorder
        \/ TSinkPush \/ TSinkPop \/ TWritten \/ TSinkFinish \/ TSinkExit \/ TFini \/ TUninit
Spec == Init /\ [][Next]_tvars

\* violated exactly when the whole trace has been consumed
NotAccepted == l <= Len(TraceLog)
\* the invariants of Compress hold after every event
TraceInv == cfg.W > 0 => DataInv
=============================================================================
