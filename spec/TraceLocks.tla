----------------------------- MODULE TraceLocks -----------------------------
(***************************************************************************)
(* Trace validation against the locking protocol of Locks.tla.  IOEnv.SIG  *)
(* names a file with the (mode, role, event, locks held) signature that    *)
(* TLC computed from Locks.tla for the three modes; a recorded trace is    *)
(* accepted only if every event of it was emitted by a thread of the right *)
(* role holding exactly the monitors the model holds at that transition.   *)
(* A thread's role is fixed by its first event (Start / CopyInit: main,    *)
(* Init / InitX / WStart: worker, SrcTake: reader, SinkPop / SinkExit:     *)
(* writer).                                                                *)
(***************************************************************************)
EXTENDS Naturals, Sequences, FiniteSets, TLC, Json, IOUtils

TraceLog == ndJsonDeserialize(IOEnv.TRACE)
Sig == ndJsonDeserialize(IOEnv.SIG)
AllowedIn(m) == {<<Sig[i].role, Sig[i].e, Sig[i].mon>> : i \in {j \in 1..Len(Sig) : Sig[j].mode = m}}
AllowedCompress == AllowedIn("compress")
AllowedExpand == AllowedIn("expand")
AllowedCopy == AllowedIn("copy")
Allowed(m) == CASE m = "compress" -> AllowedCompress [] m = "expand" -> AllowedExpand [] m = "copy" -> AllowedCopy
                [] OTHER -> {<<"main", "Start", 0>>}

MainPathEv == {"OpIn", "Cli", "OpOut", "Worked", "Halt", "OutDone", "InRm", "Sti", "StiDone", "InDone", "Exit", "Cleanup", "Terminate", "BailoutMain", "BailoutSub", "QueueCaps"}
VARIABLES l, mode, role, counts
vars == <<l, mode, role, counts>>
Ev == TraceLog[l]
Must(cond, name) == IF cond THEN TRUE ELSE PrintT(<<"REJECT", l, Ev.e, name>>) /\ FALSE

FirstRole(e) == CASE e \in {"Start", "CopyInit"} -> "main"
                  [] e \in {"Init", "InitX", "WStart"} -> "worker"
                  [] e = "SrcTake" -> "reader"
                  [] e \in {"SinkPop", "SinkExit"} -> "writer"
                  [] OTHER -> "unknown"
ModeAfter(e, d) == CASE e = "Init" -> "compress" [] e = "InitX" -> "expand" [] e = "CopyInit" -> "copy" [] OTHER -> mode

Init == l = 1 /\ mode = "none" /\ role = <<>> /\ counts = [locked |-> 0, unlocked |-> 0, nested |-> 0]

EmptyFn == [x \in {} |-> "x"]
Next == /\ l <= Len(TraceLog)
        /\ l' = l + 1
        /\ IF Ev.e \in {"Reset", "Start"}
           THEN /\ mode' = "none"
                /\ role' = (IF Ev.e = "Start" THEN (Ev.tid :> "main") ELSE EmptyFn)
                /\ UNCHANGED counts
           ELSE IF Ev.e \in MainPathEv THEN UNCHANGED <<mode, role, counts>>      \* (TraceCrash.tla's events)
           ELSE LET m == ModeAfter(Ev.e, 0)
                    r == IF Ev.tid \in DOMAIN role THEN role[Ev.tid] ELSE FirstRole(Ev.e) IN
                /\ mode' = m
                /\ role' = (IF Ev.tid \in DOMAIN role THEN role ELSE (Ev.tid :> r) @@ role)
                /\ Must(r # "unknown", "the thread's first event identifies its role")
                /\ Must(<<r, Ev.e, Ev.mon>> \in Allowed(m), "role, event and monitors held are a transition of Locks.tla")
                /\ counts' = [locked |-> counts.locked + (IF Ev.mon # 0 THEN 1 ELSE 0),
                              unlocked |-> counts.unlocked + (IF Ev.mon = 0 THEN 1 ELSE 0),
                              nested |-> counts.nested + (IF Ev.mon \in {3, 5} THEN 1 ELSE 0)]
Spec == Init /\ [][Next]_vars
NotAccepted == l <= Len(TraceLog)
=============================================================================
