------------------------------ MODULE CopyInd ------------------------------
(***************************************************************************)
(* Unbounded safety of the -cdf copy loop (Copy.tla / MCCopy.tla) by an     *)
(* inductive invariant, discharged by Apalache for EVERY number of input   *)
(* buffers (TLC explores MCCopy only for small NReads).  The queue of      *)
(* buffers on their way to the writer is represented by its length q and   *)
(* the number w of buffers already written: the FIFO contents are then     *)
(* w+1 .. w+q by construction (what TLC checks on Copy.tla as COrdered).   *)
(* The reader's program counter of MCCopy is kept.  MCCopy is checked by    *)
(* TLC to refine this module (IndRefines, IndHolds in MCCopy.tla), so the  *)
(* abstraction cannot drift away from the specification the traces are     *)
(* validated against.                                                      *)
(*   apalache-mc check --init=IndInit --inv=IndInv --length=0 CopyInd.tla  *)
(*   apalache-mc check --init=IndInv  --inv=IndInv --length=1 CopyInd.tla  *)
(*   apalache-mc check --init=IndInv  --inv=Safe   --length=0 CopyInd.tla  *)
(***************************************************************************)
EXTENDS Integers

CONSTANTS
  \* @type: Int;
  NReads,
  \* @type: Bool;
  Exact

VARIABLES
  \* @type: Int;
  inSlots,
  \* @type: Int;
  outSlots,
  \* @type: Bool;
  eof,
  \* @type: Int;
  srcBuf,
  \* @type: Int;
  q,
  \* @type: Int;
  acks,
  \* @type: Int;
  w,
  \* @type: Int;
  nread,
  \* @type: Int;
  usr2,
  \* @type: Int;
  relpend,
  \* @type: Str;
  spc

TotIn == 2
TotOut == 2
ConstInit == NReads \in Nat /\ Exact \in BOOLEAN

IndInit == /\ inSlots = TotIn /\ outSlots = TotOut /\ eof = FALSE /\ srcBuf = 0 /\ q = 0 /\ acks = 0
           /\ w = 0 /\ nread = 0 /\ usr2 = 0 /\ relpend = 0 /\ spc = "take"

Leave(e, os) == usr2' = (IF e /\ os = TotOut THEN usr2 + 1 ELSE usr2)

CSrcTake == /\ inSlots > 0 /\ srcBuf = 0 /\ ~eof
            /\ inSlots' = inSlots - 1 /\ srcBuf' = 1
            /\ UNCHANGED <<outSlots, eof, q, acks, w, nread, usr2, relpend>>
CAvail == /\ srcBuf = 1
          /\ outSlots' = outSlots - 1 /\ srcBuf' = 0 /\ nread' = nread + 1 /\ q' = q + 1
          /\ Leave(eof, outSlots - 1)
          /\ UNCHANGED <<inSlots, eof, acks, w, relpend>>
CSrcEmpty == /\ srcBuf = 1 /\ inSlots' = inSlots + 1 /\ srcBuf' = 0
             /\ UNCHANGED <<outSlots, eof, q, acks, w, nread, usr2, relpend>>
CEof == /\ srcBuf = 0 /\ ~eof /\ eof' = TRUE /\ Leave(TRUE, outSlots)
        /\ UNCHANGED <<inSlots, outSlots, srcBuf, q, acks, w, nread, relpend>>
CSinkPop == /\ q > 0 /\ acks = 0 /\ w' = w + 1 /\ q' = q - 1 /\ acks' = 1
            /\ UNCHANGED <<inSlots, outSlots, eof, srcBuf, nread, usr2, relpend>>
CRelease == /\ acks = 1 /\ relpend = 0 /\ inSlots' = inSlots + 1 /\ relpend' = 1
            /\ UNCHANGED <<outSlots, eof, srcBuf, q, acks, w, nread, usr2>>
CWritten == /\ acks = 1 /\ relpend = 1
            /\ outSlots' = outSlots + 1 /\ acks' = 0 /\ relpend' = 0 /\ Leave(eof, outSlots + 1)
            /\ UNCHANGED <<inSlots, eof, srcBuf, q, w, nread>>

Src == \/ (spc = "take" /\ CSrcTake /\ spc' = (IF nread < NReads THEN "avail" ELSE "empty"))
       \/ (spc = "avail" /\ CAvail /\ spc' = (IF nread + 1 < NReads \/ Exact THEN "take" ELSE "eof"))
       \/ (spc = "empty" /\ CSrcEmpty /\ spc' = "eof")
       \/ (spc = "eof" /\ CEof /\ spc' = "done")
Snk == (CSinkPop \/ CRelease \/ CWritten) /\ UNCHANGED spc
Next == Src \/ Snk
vars == <<inSlots, outSlots, eof, srcBuf, q, acks, w, nread, usr2, relpend, spc>>

\* ------------------------------------------------------------------ the inductive invariant
TypeOK == /\ inSlots \in 0..TotIn /\ outSlots \in -1..TotOut /\ srcBuf \in 0..1 /\ q \in 0..TotOut
          /\ acks \in 0..1 /\ relpend \in 0..1 /\ w \in Nat /\ nread \in Nat /\ usr2 \in 0..1
          /\ eof \in BOOLEAN /\ spc \in {"take", "avail", "empty", "eof", "done"}
          /\ NReads \in Nat /\ Exact \in BOOLEAN
Conserve == /\ outSlots + q + acks = TotOut
            /\ inSlots + srcBuf + q + acks - relpend = TotIn
            /\ w + q = nread
            /\ (relpend = 1 => acks = 1)
Reader == /\ (spc = "take" => srcBuf = 0 /\ ~eof /\ nread <= NReads /\ (nread = NReads => Exact \/ NReads = 0))
          /\ (spc = "avail" => srcBuf = 1 /\ ~eof /\ nread < NReads)
          /\ (spc = "empty" => srcBuf = 1 /\ ~eof /\ nread = NReads)
          /\ (spc = "eof" => srcBuf = 0 /\ ~eof /\ nread = NReads)
          /\ (spc = "done" => srcBuf = 0 /\ eof /\ nread = NReads)
          /\ (eof <=> spc = "done")
\* SIGUSR2 exactly when eof and everything written and acknowledged
Signal == usr2 = (IF eof /\ outSlots = TotOut THEN 1 ELSE 0)
IndInv == TypeOK /\ Conserve /\ Reader /\ Signal

\* ------------------------------------------------------------------ what follows from it
Finished == spc = "done" /\ w = nread /\ acks = 0
CanStep == \/ (spc = "take" /\ inSlots > 0) \/ spc \in {"avail", "empty", "eof"}
           \/ (q > 0 /\ acks = 0) \/ acks = 1
\* no deadlock for any input length; the main thread is released exactly at the end, once
Safe == /\ (Finished \/ CanStep)
        /\ (usr2 = 1 => Finished /\ inSlots = TotIn /\ outSlots = TotOut /\ nread = NReads)
        /\ (Finished => usr2 = 1)
=============================================================================
