------------------------------- MODULE Parser -------------------------------
(***************************************************************************)
(* The stream-level parser of lbzip2 -d (parse.c: parse()), the only       *)
(* source of truth about where blocks begin: a resumable machine that      *)
(* reads the input 16 bits at a time - block magic and stored block CRC,   *)
(* end-of-stream magic and stored stream CRC (checked against the          *)
(* combination of the block CRCs), byte alignment, the header of the next  *)
(* concatenated stream with its own block-size digit, and the verdict on   *)
(* what follows the last stream (nothing, or trailing garbage).            *)
(*                                                                         *)
(* Two formulations are checked against each other by TLC for every        *)
(* stimulus:                                                               *)
(*   Machine   parse() transcribed state by state (STREAM_MAGIC_1 ..       *)
(*             EOS_CRC_2, the tail rule when fewer than 16 bits remain);   *)
(*             everything it remembers is in the state record, so where    *)
(*             the input is cut into chunks cannot matter                  *)
(*   Grammar   stream ::= [BZh d] block* eos crc ; file ::= stream+ tail    *)
(*             as a recursive descent over the whole bit string            *)
(* Stimuli are built inside the specification: every shape (streams,       *)
(* blocks, payload lengths that put the trailer at every bit offset,       *)
(* digits, tails) x {as is, every single-bit flip of a non-payload bit,    *)
(* every truncation at a byte boundary}.  tools/inproc.py replays each     *)
(* stimulus through the real parse() under several chunkings - all at      *)
(* once, one 32-bit word per call, two words, and a chunk ending exactly    *)
(* where each stream ends - and compares every return code, CRC, digit and *)
(* garbage count with the Machine's.                                       *)
(***************************************************************************)
EXTENDS Naturals, Sequences, FiniteSets, TLC, Json

CONSTANTS Shapes      \* set of shapes: [level0, streams : Seq([level, blocks : Seq([crc, pay])]), tail]

BZ == 16986   H1 == 26673   H9 == 26681
M1 == 12609   M2 == 22822   M3 == 21337
E1 == 6002    E2 == 17720   E3 == 20624

Pow2(n) == 2 ^ n
Bits(n, v) == [i \in 1..n |-> (v \div Pow2(n - i)) % 2]
Val(bs) == LET F[i \in 0..Len(bs)] == IF i = 0 THEN 0 ELSE 2 * F[i - 1] + bs[i] IN F[Len(bs)]
Zero(n) == [i \in 1..n |-> 0]
Xor(a, b) == [i \in 1..Len(a) |-> (a[i] + b[i]) % 2]
Rotl1(a) == [i \in 1..32 |-> a[(i % 32) + 1]]
Combine(acc, crc) == Xor(Rotl1(acc), crc)          \* (acc << 1) ^ (acc >> 31) ^ crc
Crc(c) == Bits(16, c[1]) \o Bits(16, c[2])          \* a CRC is given as <<high half, low half>>

\* ------------------------------------------------------------------ building a file from a shape
RECURSIVE Flat(_)
Flat(ss) == IF ss = <<>> THEN <<>> ELSE Head(ss) \o Flat(Tail(ss))
Payload(n) == [i \in 1..n |-> IF i % 3 = 0 THEN 0 ELSE 1]
BlockBits(b) == Bits(16, M1) \o Bits(16, M2) \o Bits(16, M3) \o Crc(b.crc) \o Payload(b.pay)
RECURSIVE StreamCrc(_, _)
StreamCrc(blocks, acc) == IF blocks = <<>> THEN acc ELSE StreamCrc(Tail(blocks), Combine(acc, Crc(Head(blocks).crc)))
PadTo(bs, m) == bs \o Zero((m - (Len(bs) % m)) % m)
\* the first stream's four header bytes are consumed by the caller (format sniffing in work())
StreamBits(s, first) ==
  PadTo((IF first THEN <<>> ELSE Bits(16, BZ) \o Bits(16, 26672 + s.level))
        \o Flat([i \in 1..Len(s.blocks) |-> BlockBits(s.blocks[i])])
        \o Bits(16, E1) \o Bits(16, E2) \o Bits(16, E3) \o StreamCrc(s.blocks, Zero(32)), 8)
FileBits(sh) == Flat([i \in 1..Len(sh.streams) |-> StreamBits(sh.streams[i], i = 1)]) \o sh.tail
SkipAt(sk, k) == IF k <= Len(sk) THEN sk[k] ELSE 0
Skips(sh) == Flat([i \in 1..Len(sh.streams) |-> [j \in 1..Len(sh.streams[i].blocks) |-> sh.streams[i].blocks[j].pay]])
\* positions (1-based bit indices) that belong to a block payload: flipping them is of no interest here
RECURSIVE PayloadMask(_, _, _)
PayloadMask(sh, i, off) ==
  IF i > Len(sh.streams) THEN {}
  ELSE LET s == sh.streams[i]
           hdr == IF i = 1 THEN 0 ELSE 32
           B[j \in 0..Len(s.blocks)] == IF j = 0 THEN off + hdr ELSE B[j - 1] + 80 + s.blocks[j].pay
       IN UNION {(B[j - 1] + 81)..B[j] : j \in 1..Len(s.blocks)} \cup PayloadMask(sh, i + 1, off + Len(StreamBits(s, i = 1)))

\* a stimulus: the bits handed to parse() (padded to whole 32-bit words with zeros, as the reader does)
Flip(bs, k) == [bs EXCEPT ![k] = 1 - @]
Stimuli == UNION {
    {[shape |-> sh, mut |-> "none", at |-> 0, bits |-> PadTo(FileBits(sh), 32)]}
    \cup {[shape |-> sh, mut |-> "flip", at |-> k, bits |-> PadTo(Flip(FileBits(sh), k), 32)] :
            k \in (1..Len(FileBits(sh))) \ PayloadMask(sh, 1, 0)}
    \cup {[shape |-> sh, mut |-> "trunc", at |-> 8 * k, bits |-> PadTo(SubSeq(FileBits(sh), 1, 8 * k), 32)] :
            k \in 0..((Len(FileBits(sh)) - 1) \div 8)}
  : sh \in Shapes}

\* ------------------------------------------------------------------ the machine (parse.c)
VARIABLES stim,       \* the stimulus of this behaviour
          st,         \* parser state
          level,      \* ps->bs100k
          acc,        \* ps->computed_crc
          hi,         \* ps->stored_crc (high half while between the two CRC words)
          pos,        \* bits consumed so far
          nok,        \* blocks reported so far
          res         \* what parse() returned so far
vars == <<stim, st, level, acc, hi, pos, nok, res>>

Init == /\ stim \in Stimuli
        /\ st = "BLOCK_MAGIC_1" /\ level = stim.shape.level0 /\ acc = Zero(32) /\ hi = Zero(16)
        /\ pos = 0 /\ nok = 0 /\ res = <<>>

L == Len(stim.bits)
Word == Val(SubSeq(stim.bits, pos + 1, pos + 16))
WordBits == SubSeq(stim.bits, pos + 1, pos + 16)
Running == st \notin {"ACCEPT", "FAILED"}
Ret(r) == res' = Append(res, r)
Stay == UNCHANGED <<stim, level, acc, hi, nok>>
Fail(kind) == st' = "FAILED" /\ Ret([r |-> kind]) /\ pos' = pos + 16 /\ Stay
Finish(g, p) == st' = "ACCEPT" /\ Ret([r |-> "FINISH", garbage |-> g]) /\ pos' = p /\ Stay
Goto(s) == st' = s /\ pos' = pos + 16 /\ UNCHANGED res

Step ==
  /\ Running
  /\ IF L - pos >= 16
     THEN CASE st = "STREAM_MAGIC_1" -> IF Word # BZ THEN Finish(16, pos + 16) ELSE Goto("STREAM_MAGIC_2") /\ Stay
            [] st = "STREAM_MAGIC_2" -> IF Word > H9 \/ Word < H1 THEN Finish(32, pos + 16)
                                        ELSE Goto("BLOCK_MAGIC_1") /\ level' = Word % 16 /\ UNCHANGED <<stim, acc, hi, nok>>
            [] st = "BLOCK_MAGIC_1" -> IF Word = E1 THEN Goto("EOS_2") /\ Stay
                                       ELSE IF Word # M1 THEN Fail("ERR_HEADER") ELSE Goto("BLOCK_MAGIC_2") /\ Stay
            [] st = "BLOCK_MAGIC_2" -> IF Word # M2 THEN Fail("ERR_HEADER") ELSE Goto("BLOCK_MAGIC_3") /\ Stay
            [] st = "BLOCK_MAGIC_3" -> IF Word # M3 THEN Fail("ERR_HEADER") ELSE Goto("BLOCK_CRC_1") /\ Stay
            [] st = "BLOCK_CRC_1" -> Goto("BLOCK_CRC_2") /\ hi' = WordBits /\ UNCHANGED <<stim, level, acc, nok>>
            [] st = "BLOCK_CRC_2" ->
                 \* OK: the caller decodes the block and resumes the parser behind it
                 LET crc == hi \o WordBits
                     skip == SkipAt(Skips(stim.shape), nok + 1)
                 IN /\ acc' = Combine(acc, crc) /\ nok' = nok + 1
                    /\ IF pos + 16 + skip > L
                       THEN st' = "FAILED" /\ pos' = L
                            /\ res' = res \o <<[r |-> "OK", crc |-> <<Val(hi), Val(WordBits)>>, level |-> level], [r |-> "PAYLOAD_EOF"]>>
                       ELSE st' = "BLOCK_MAGIC_1" /\ pos' = pos + 16 + skip
                            /\ Ret([r |-> "OK", crc |-> <<Val(hi), Val(WordBits)>>, level |-> level])
                    /\ UNCHANGED <<stim, level, hi>>
            [] st = "EOS_2" -> IF Word # E2 THEN Fail("ERR_HEADER") ELSE Goto("EOS_3") /\ Stay
            [] st = "EOS_3" -> IF Word # E3 THEN Fail("ERR_HEADER") ELSE Goto("EOS_CRC_1") /\ Stay
            [] st = "EOS_CRC_1" -> Goto("EOS_CRC_2") /\ hi' = WordBits /\ UNCHANGED <<stim, level, acc, nok>>
            [] st = "EOS_CRC_2" -> IF hi \o WordBits # acc THEN Fail("ERR_STRMCRC")
                                   ELSE \* bits_align(): drop what is left of the current byte
                                        /\ st' = "STREAM_MAGIC_1" /\ pos' = ((pos + 16 + 7) \div 8) * 8
                                        /\ acc' = Zero(32) /\ UNCHANGED <<stim, level, hi, nok, res>>
     ELSE \* fewer than 16 bits left and the input is at its end
          CASE st = "STREAM_MAGIC_1" -> Finish(0, pos)
            [] st = "STREAM_MAGIC_2" -> Finish(16, pos)
            [] OTHER -> st' = "FAILED" /\ Ret([r |-> "ERR_EOF"]) /\ pos' = pos /\ Stay

Spec == Init /\ [][Step]_vars

\* ------------------------------------------------------------------ the grammar
GW(b, p) == Val(SubSeq(b, p + 1, p + 16))
Has(b, p) == Len(b) - p >= 16
RECURSIVE GStreams(_, _, _, _), GBlocks(_, _, _, _, _, _)
GEos(b, sk, p, lv, a, k) ==
  IF ~Has(b, p) THEN <<[r |-> "ERR_EOF"]>> ELSE IF GW(b, p) # E2 THEN <<[r |-> "ERR_HEADER"]>>
  ELSE IF ~Has(b, p + 16) THEN <<[r |-> "ERR_EOF"]>> ELSE IF GW(b, p + 16) # E3 THEN <<[r |-> "ERR_HEADER"]>>
  ELSE IF ~Has(b, p + 48) THEN <<[r |-> "ERR_EOF"]>>
  ELSE IF SubSeq(b, p + 33, p + 64) # a THEN <<[r |-> "ERR_STRMCRC"]>>
  ELSE GStreams(b, sk, ((p + 64 + 7) \div 8) * 8, k)
GBlocks(b, sk, p, lv, a, k) ==
  IF ~Has(b, p) THEN <<[r |-> "ERR_EOF"]>>
  ELSE IF GW(b, p) = E1 THEN GEos(b, sk, p + 16, lv, a, k)
  ELSE IF GW(b, p) # M1 THEN <<[r |-> "ERR_HEADER"]>>
  ELSE IF ~Has(b, p + 16) THEN <<[r |-> "ERR_EOF"]>> ELSE IF GW(b, p + 16) # M2 THEN <<[r |-> "ERR_HEADER"]>>
  ELSE IF ~Has(b, p + 32) THEN <<[r |-> "ERR_EOF"]>> ELSE IF GW(b, p + 32) # M3 THEN <<[r |-> "ERR_HEADER"]>>
  ELSE IF ~Has(b, p + 64) THEN <<[r |-> "ERR_EOF"]>>
  ELSE LET crc == SubSeq(b, p + 49, p + 80)
           ok == [r |-> "OK", crc |-> <<Val(SubSeq(crc, 1, 16)), Val(SubSeq(crc, 17, 32))>>, level |-> lv]
       IN IF p + 80 + SkipAt(sk, k + 1) > Len(b) THEN <<ok, [r |-> "PAYLOAD_EOF"]>>
          ELSE <<ok>> \o GBlocks(b, sk, p + 80 + SkipAt(sk, k + 1), lv, Combine(a, crc), k + 1)
GStreams(b, sk, p, k) ==
  IF ~Has(b, p) THEN <<[r |-> "FINISH", garbage |-> 0]>>
  ELSE IF GW(b, p) # BZ THEN <<[r |-> "FINISH", garbage |-> 16]>>
  ELSE IF ~Has(b, p + 16) THEN <<[r |-> "FINISH", garbage |-> 16]>>
  ELSE IF GW(b, p + 16) < H1 \/ GW(b, p + 16) > H9 THEN <<[r |-> "FINISH", garbage |-> 32]>>
  ELSE GBlocks(b, sk, p + 32, GW(b, p + 16) % 16, Zero(32), k)
Grammar(s) == GBlocks(s.bits, Skips(s.shape), 0, s.shape.level0, Zero(32), 0)

\* ------------------------------------------------------------------ checked by TLC
Terminal == ~Running
MachineIsGrammar == Terminal => res = Grammar(stim)
\* a file built from a shape, unmodified, is accepted with exactly its blocks, digits and CRCs
ValidAccepted == (Terminal /\ stim.mut = "none") =>
                   /\ res[Len(res)].r = "FINISH"
                   /\ Len(res) = Len(Skips(stim.shape)) + 1
HexWords(bs) == [i \in 1..(Len(bs) \div 16) |-> Val(SubSeq(bs, 16 * i - 15, 16 * i))]
Export == Terminal => PrintT(<<"BEHAVIOUR", ToJson([words |-> HexWords(stim.bits), level0 |-> stim.shape.level0,
                                                     skips |-> Skips(stim.shape), mut |-> stim.mut, at |-> stim.at,
                                                     ends |-> [i \in 1..Len(stim.shape.streams) |->
                                                                 Len(Flat([j \in 1..i |-> StreamBits(stim.shape.streams[j], j = 1)]))],
                                                     res |-> res])>>)
=============================================================================
