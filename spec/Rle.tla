-------------------------------- MODULE Rle --------------------------------
(***************************************************************************)
(* The resumable initial run-length encoder collect() of src/encode.c      *)
(* (plus the flush at the start of encode()) transcribed label by label,   *)
(* and the rule it is supposed to implement written down without any       *)
(* state machine:                                                          *)
(*                                                                         *)
(*   a block takes the LONGEST PREFIX of the input whose canonical         *)
(*   run-length encoding fits into Cap bytes, where a maximal run is cut   *)
(*   into pieces of at most 259 and a piece of 4..259 equal bytes becomes  *)
(*   four copies plus a count.                                             *)
(*                                                                         *)
(* A behaviour fixes the input, the capacity and how the input is split    *)
(* into successive buffers (collect() calls).  TLC checks that for every   *)
(* split the machine consumes exactly the greedy prefix and builds exactly *)
(* its encoding, and prints every behaviour for replay through the real    *)
(* collect() with encoder_init(max_block_size = Cap).                      *)
(***************************************************************************)
EXTENDS Naturals, Sequences, FiniteSets, TLC, Json

CONSTANTS Inputs,       \* set of input strings (sequences of byte values)
          Caps,         \* set of block capacities
          MaxCalls      \* maximal number of collect() calls (buffers) per behaviour

VARIABLES inp, cap, pos, q, st, ch, calls, phase

vars == <<inp, cap, pos, q, st, ch, calls, phase>>
MAXRUN == 259

---------------------------------------------------------------------------
(* Declarative side.                                                       *)
\* length of the run of equal bytes starting at k, cut at 259
RECURSIVE RunFrom(_, _, _)
RunFrom(s, k, n) == IF n < MAXRUN /\ k + n <= Len(s) /\ s[k + n] = s[k] THEN RunFrom(s, k, n + 1) ELSE n
RunAt(s, k) == RunFrom(s, k, 1)
RECURSIVE CanonFrom(_, _)
CanonFrom(s, k) ==
  IF k > Len(s) THEN <<>>
  ELSE LET n == RunAt(s, k) x == s[k]
       IN (IF n >= 4 THEN <<x, x, x, x, n - 4>> ELSE [j \in 1..n |-> x]) \o CanonFrom(s, k + n)
Canon(s) == CanonFrom(s, 1)
Prefix(s, n) == SubSeq(s, 1, n)
\* the greedy rule: the longest prefix whose encoding fits
GreedyLen(s, c) == LET S == {n \in 0..Len(s) : Len(Canon(Prefix(s, n))) <= c}
                   IN CHOOSE n \in S : \A m \in S : m <= n

---------------------------------------------------------------------------
(* collect(), label by label.  buf = the bytes of this call, p = bytes of  *)
(* buf consumed, qq = block so far.  Result: [q, st, ch, used].            *)
Res(qq, s, c, p) == [q |-> qq, st |-> s, ch |-> c, used |-> p]
FULL == 1000       \* rle_state = -1
RECURSIVE Go(_, _, _, _, _, _, _, _)
Go(pc, buf, p, qq, c, last, run, cp) ==
  LET n == Len(buf)
      nb == Len(qq)
  IN CASE pc = "state0" ->
            IF nb >= cp THEN Res(qq, FULL, c, p)
            ELSE IF p = n THEN Res(qq, 0, c, p)
            ELSE Go("state1", buf, p + 1, qq, buf[p + 1], last, run, cp)
       [] pc = "state1" ->                        \* the S1 macro
            LET q1 == Append(qq, c) IN
            IF Len(q1) >= cp THEN Res(q1, FULL, c, p)
            ELSE IF p = n THEN Res(q1, 1, c, p)
            ELSE IF buf[p + 1] = c THEN Go("state2", buf, p + 1, q1, buf[p + 1], c, run, cp)
            ELSE Go("state1", buf, p + 1, q1, buf[p + 1], c, run, cp)
       [] pc = "state2" ->
            LET q1 == Append(qq, c) IN
            IF Len(q1) >= cp THEN Res(q1, FULL, c, p)
            ELSE IF p = n THEN Res(q1, 2, c, p)
            ELSE IF buf[p + 1] # last THEN Go("state1", buf, p + 1, q1, buf[p + 1], last, run, cp)
            ELSE Go("state3", buf, p + 1, q1, buf[p + 1], last, run, cp)
       [] pc = "state3" ->
            LET q1 == Append(qq, c) IN
            \* a fourth equal byte is taken only if it and its count still fit
            IF Len(q1) >= cp - 1 /\ (Len(q1) >= cp \/ (p < n /\ buf[p + 1] = last)) THEN Res(q1, FULL, c, p)
            ELSE IF p = n THEN Res(q1, 3, c, p)
            ELSE IF buf[p + 1] # last THEN Go("state1", buf, p + 1, q1, buf[p + 1], last, run, cp)
            ELSE Go("run", buf, p + 1, Append(q1, buf[p + 1]), buf[p + 1], last, 4, cp)
       [] pc = "run" ->                           \* four copies written, `run' bytes of the run consumed
            IF run = MAXRUN THEN Go("state0", buf, p, Append(qq, MAXRUN - 4), c, last, run, cp)
            ELSE IF p = n THEN Res(qq, run, c, p)
            ELSE IF buf[p + 1] # last
            THEN LET q1 == Append(qq, run - 4) IN
                 IF Len(q1) <= cp - 1 THEN Go("state1", buf, p + 1, q1, buf[p + 1], last, run, cp)
                 ELSE Res(q1, FULL, c, p)         \* the byte is ungot: no room to start a new run
            ELSE Go("run", buf, p + 1, qq, c, last, run + 1, cp)
       [] pc = "finish" ->                        \* resume: c = rle_character, run = rle_state
            IF nb >= cp - 1 /\ (nb >= cp \/ (run = 3 /\ p < n /\ buf[p + 1] = c)) THEN Res(qq, FULL, c, p)
            ELSE IF p = n THEN Res(qq, run, c, p)
            ELSE IF run >= 4
            THEN IF buf[p + 1] # c THEN Go("state0", buf, p, Append(qq, run - 4), c, last, run, cp)
                 ELSE IF run + 1 = MAXRUN THEN Go("state0", buf, p + 1, Append(qq, MAXRUN - 4), c, last, run, cp)
                 ELSE Go("finish", buf, p + 1, qq, c, last, run + 1, cp)
            ELSE IF buf[p + 1] # c THEN Go("state0", buf, p, qq, c, last, run, cp)
            ELSE Go("finish", buf, p + 1, Append(qq, c), c, last, run + 1, cp)
Collect(buf) == IF st # 0 THEN Go("finish", buf, 0, q, ch, ch, st, cap)
                          ELSE Go("state0", buf, 0, q, ch, ch, 0, cap)

---------------------------------------------------------------------------
Init == /\ inp \in Inputs /\ cap \in Caps
        /\ pos = 0 /\ q = <<>> /\ st = 0 /\ ch = 0 /\ calls = <<>> /\ phase = "collect"

Rest == SubSeq(inp, pos + 1, Len(inp))
\* one collect() call with the next n bytes of the input (n = 0: an empty buffer)
Call == /\ phase = "collect" /\ Len(calls) < MaxCalls
        /\ \E n \in 0..(Len(inp) - pos) :
             \* the last allowed call takes all the remaining input
             /\ (Len(calls) = MaxCalls - 1 => n = Len(inp) - pos)
             /\ LET r == Collect(SubSeq(Rest, 1, n)) IN
                /\ q' = r.q /\ st' = r.st /\ ch' = r.ch /\ pos' = pos + r.used
                /\ calls' = Append(calls, [given |-> n, used |-> r.used, full |-> r.st = FULL,
                                           st |-> r.st, nblock |-> Len(r.q)])
                /\ phase' = IF r.st = FULL \/ (pos' = Len(inp) /\ n = Len(inp) - pos) THEN "flush" ELSE "collect"
        /\ UNCHANGED <<inp, cap>>
\* encode(): a pending run of four or more gets its count
Flush == /\ phase = "flush"
         /\ q' = (IF st # FULL /\ st >= 4 THEN Append(q, st - 4) ELSE q)
         /\ phase' = "done"
         /\ UNCHANGED <<inp, cap, pos, st, ch, calls>>
Next == Call \/ Flush
Spec == Init /\ [][Next]_vars

Terminal == phase = "done"
\* the machine implements the greedy rule, however the input is split into buffers
\* (the encoding never gets shorter when the prefix grows, so "longest prefix that fits" is:
\*  this prefix fits and one more byte does not)
Greedy == Terminal =>
            /\ q = Canon(Prefix(inp, pos))
            /\ Len(q) <= cap
            /\ (pos = Len(inp) \/ Len(Canon(Prefix(inp, pos + 1))) > cap)
\* the same, literally (used on small domains to confirm the shortcut above)
GreedyLiteral == Terminal => pos = GreedyLen(inp, cap)
\* a collect() call always makes progress unless the block is full or the buffer is empty
Export == Terminal => PrintT(<<"BEHAVIOUR", ToJson([inp |-> inp, cap |-> cap, calls |-> calls, q |-> q, used |-> pos])>>)
=============================================================================
