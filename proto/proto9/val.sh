#!/bin/bash
# usage: val.sh <file> <n> [ENV=VAL...]
f=$1; n=$2; shift 2
rm -f /tmp/proto9/t.ndjson
env VERIF_TRACE=/tmp/proto9/t.ndjson "$@" timeout 20 /tmp/proto9/lbz-x -d -n $n < $f > /tmp/proto9/t.out 2>/tmp/proto9/t.err; rc=$?
ne=$(wc -l < /tmp/proto9/t.ndjson 2>/dev/null || echo 0)
if [ "$ne" = "0" ]; then echo "$f n=$n $* rc=$rc events=0"; exit; fi
res=$(TRACE=/tmp/proto9/t.ndjson timeout 300 tlc -workers 1 -noGenerateSpecTE -metadir /tmp/proto9/mdv$$ -config TExpand.cfg TExpand.tla 2>&1 | grep -E "Invariant .* is violated|states generated|^Error" | tr '\n' ' ')
rm -rf /tmp/proto9/mdv$$
echo "$(basename $f) n=$n $* rc=$rc events=$ne :: $res"
