---------------------------- MODULE TExpand ----------------------------
(* Prototype trace specification for lbzip2 decompression (expand.c).       *)
EXTENDS Naturals, Sequences, FiniteSets, TLC, Json, IOUtils

TraceLog == ndJsonDeserialize(IOEnv.TRACE)
None == [k |-> "none"]
MaxTid == 40

VARIABLES l, W, totIn, totOut, bpb,           \* bpb = bits per I/O block
          workUnits, outSlots, parseToken, parsingDone, eof, failed,
          headOffs, tailOffs, inputQ, scanQ, retrQ, emitQ, reordQ, orderQ, unord,
          ppos, poff, carry, written
vars == <<l, W, totIn, totOut, bpb, workUnits, outSlots, parseToken, parsingDone, eof, failed,
          headOffs, tailOffs, inputQ, scanQ, retrQ, emitQ, reordQ, orderQ, unord, ppos, poff, carry, written>>

Ev == TraceLog[l]
Abs(maj, bit) == maj * bpb + bit
BLt(a, b) == a[1] < b[1] \/ (a[1] = b[1] /\ a[2] < b[2])      \* base = <<abs bit, sub>>
MinP(S) == CHOOSE x \in S : \A y \in S : x.p <= y.p
MinB(S) == CHOOSE x \in S : \A y \in S : ~BLt(y.base, x.base)
MinC(S) == CHOOSE x \in S : \A y \in S : x.cur <= y.cur
UnordQ == {u \in unord : u.inQ}
CanAttach(off) == off < tailOffs \/ (eof /\ off = tailOffs)

Step(name) == l <= Len(TraceLog) /\ Ev.e = name /\ l' = l + 1 /\ ~failed

\* advance(): compute released input blocks / stale jobs for a new attach offset
RECURSIVE Shift(_, _)
Shift(q, off) == IF q # <<>> /\ Head(q).off + Head(q).size <= off THEN Shift(Tail(q), off) ELSE q
HeadOf(q) == IF q = <<>> THEN tailOffs ELSE Head(q).off
AdvQ(off) == Shift(inputQ, off)
AdvHead(off) == HeadOf(AdvQ(off))

\* logged post-state must equal the specification's post-state
Scalars == /\ workUnits' = Ev.wu /\ outSlots' = Ev.os
           /\ parseToken' = (Ev.pt = 1) /\ parsingDone' = (Ev.pd = 1)
           /\ headOffs' = Ev.ho /\ tailOffs' = Ev.to
           /\ Len(inputQ') = Ev.nin /\ Cardinality(scanQ') = Ev.nsc /\ Cardinality(retrQ') = Ev.nre
           /\ Cardinality(emitQ') = Ev.nem /\ Cardinality(reordQ') = Ev.nro /\ Len(orderQ') = Ev.nor
           /\ Cardinality({u \in unord' : u.inQ}) = Ev.nun
           /\ ppos' = Abs(Ev.pmaj, Ev.pbit) /\ poff' = Ev.poff

Exp(wu, os, pt, pd) == workUnits' = wu /\ outSlots' = os /\ parseToken' = pt /\ parsingDone' = pd
Stale(off, rq) == Cardinality({r \in rq : r.coff < HeadOf(AdvQ(off))})

\* ---- property layer ---------------------------------------------------
Capacity == /\ Len(inputQ) <= totIn /\ Cardinality(scanQ) <= totIn
            /\ Cardinality(retrQ) <= W /\ Cardinality(emitQ) <= W
            /\ Cardinality(UnordQ) <= (IF W + totOut > 3 THEN W + totOut - 3 ELSE 0)
            /\ Len(orderQ) <= W + totOut /\ Cardinality(reordQ) <= totOut
Bounds == workUnits <= W /\ outSlots <= totOut
AttachOK == (\A r \in retrQ : r.coff >= headOffs) /\ (\A s \in scanQ : s.off >= headOffs)
WrittenOrdered == \A i \in 1..(Len(written) - 1) : BLt(written[i], written[i+1])

Init == /\ l = 1 /\ W = 0 /\ totIn = 0 /\ totOut = 0 /\ bpb = 1 /\ workUnits = 0 /\ outSlots = 0
        /\ parseToken = TRUE /\ parsingDone = FALSE /\ eof = FALSE /\ failed = FALSE
        /\ headOffs = 0 /\ tailOffs = 0 /\ inputQ = <<>> /\ scanQ = {} /\ retrQ = {} /\ emitQ = {} /\ reordQ = {}
        /\ orderQ = <<>> /\ unord = {} /\ ppos = 0 /\ poff = 0 /\ carry = [t \in 0..MaxTid |-> None] /\ written = <<>>

TInit == /\ Step("InitX") /\ W' = Ev.W /\ totIn' = Ev.tin /\ totOut' = Ev.tout /\ bpb' = Ev.ig * 8
         /\ workUnits' = Ev.W /\ outSlots' = Ev.tout /\ parseToken' = TRUE /\ parsingDone' = FALSE /\ eof' = FALSE
         /\ headOffs' = 0 /\ tailOffs' = 0 /\ inputQ' = <<>> /\ scanQ' = {} /\ retrQ' = {} /\ emitQ' = {} /\ reordQ' = {}
         /\ orderQ' = <<>> /\ unord' = {} /\ ppos' = 0 /\ poff' = 0 /\ carry' = [t \in 0..MaxTid |-> None] /\ written' = <<>>
         /\ UNCHANGED failed
TAvail == /\ Step("Avail") /\ ~parsingDone
          /\ inputQ' = Append(inputQ, [off |-> tailOffs, size |-> Ev.words])
          /\ scanQ' = scanQ \cup {[p |-> (tailOffs * 32), off |-> tailOffs]}
          /\ UNCHANGED <<W, totIn, totOut, bpb, eof, failed, retrQ, emitQ, reordQ, orderQ, unord, carry, written>> /\ Scalars
          /\ Exp(workUnits, outSlots, parseToken, parsingDone) /\ tailOffs' = tailOffs + Ev.words /\ headOffs' = headOffs
TAvailDrop == /\ Step("AvailDrop") /\ parsingDone
          /\ UNCHANGED <<W, totIn, totOut, bpb, eof, failed, inputQ, scanQ, retrQ, emitQ, reordQ, orderQ, unord, carry, written>> /\ Scalars
          /\ Exp(workUnits, outSlots, parseToken, parsingDone)
TEof == /\ Step("Eof") /\ eof' = TRUE
        /\ UNCHANGED <<W, totIn, totOut, bpb, workUnits, outSlots, parseToken, parsingDone, failed, headOffs, tailOffs, inputQ, scanQ, retrQ, emitQ, reordQ, orderQ, unord, ppos, poff, carry, written>>

\* ---- parser ----
TParseBegin == /\ Step("ParseBegin") /\ ~parsingDone /\ parseToken /\ workUnits > 0 /\ CanAttach(poff) /\ carry[Ev.tid] = None
          /\ carry' = [carry EXCEPT ![Ev.tid] = [k |-> "parse"]]
          /\ UNCHANGED <<W, totIn, totOut, bpb, eof, failed, inputQ, scanQ, retrQ, emitQ, reordQ, orderQ, unord, written>> /\ Scalars
          /\ Exp(workUnits - 1, outSlots, FALSE, parsingDone)
\* effect of advance(new offset) on queues
AdvEffects(off, rq, sq) ==
   LET q == AdvQ(off) ho == HeadOf(q) IN
   /\ inputQ' = q
   /\ retrQ' = {r \in rq : r.coff >= ho}
   /\ scanQ' = {s \in sq : s.off >= ho}
TParseMore == /\ Step("ParseMore") /\ carry[Ev.tid].k = "parse"
          /\ AdvEffects(Ev.poff, retrQ, scanQ)
          /\ carry' = [carry EXCEPT ![Ev.tid] = None]
          /\ UNCHANGED <<W, totIn, totOut, bpb, eof, failed, emitQ, reordQ, orderQ, unord, written>> /\ Scalars
          /\ Exp(workUnits + 1 + Stale(Ev.poff, retrQ), outSlots, TRUE, parsingDone) /\ headOffs' = HeadOf(inputQ')
TParseFinish == /\ Step("ParseFinish") /\ carry[Ev.tid].k = "parse"
          /\ inputQ' = <<>> /\ retrQ' = {} /\ scanQ' = {}
          /\ unord' = {[u EXCEPT !.inQ = FALSE, !.complete = TRUE, !.legit = FALSE] : u \in {x \in unord : ~(x.inQ /\ x.complete)}}
          /\ carry' = [carry EXCEPT ![Ev.tid] = None]
          /\ UNCHANGED <<W, totIn, totOut, bpb, eof, failed, emitQ, reordQ, orderQ, written>> /\ Scalars
          /\ Exp(workUnits + Cardinality(retrQ) + 1, outSlots, TRUE, TRUE) /\ headOffs' = tailOffs
          /\ workUnits' = workUnits + Cardinality(retrQ) + 1    \* conservation: every dropped job returns its unit
TParseErr == /\ Step("ParseErr") /\ carry[Ev.tid].k = "parse" /\ failed' = TRUE
          /\ UNCHANGED <<W, totIn, totOut, bpb, workUnits, outSlots, parseToken, parsingDone, eof, headOffs, tailOffs, inputQ, scanQ, retrQ, emitQ, reordQ, orderQ, unord, ppos, poff, carry, written>>
TParseBlock == /\ Step("ParseBlock") /\ carry[Ev.tid].k = "parse"
          /\ LET b == Abs(Ev.maj, Ev.bit)
                 stale == {u \in UnordQ : u.base < b}
                 un1 == {u \in unord : ~(u \in stale /\ u.complete)}
                 un2 == {IF u \in stale THEN [u EXCEPT !.inQ = FALSE, !.complete = TRUE, !.legit = FALSE] ELSE u : u \in un1}
                 hit == {u \in UnordQ : u.base = b}
             IN /\ orderQ' = Append(orderQ, <<b, 0>>)
                /\ IF Ev.kind = 0
                   THEN /\ hit = {}
                        /\ AdvEffects(Ev.poff, retrQ \cup {[base |-> b, cur |-> b, coff |-> Ev.boff, link |-> FALSE]}, scanQ)
                        /\ unord' = un2
                   ELSE /\ hit # {}
                        /\ LET u == CHOOSE u \in hit : TRUE IN
                           /\ (Ev.kind = 1) = u.complete
                           /\ unord' = (IF u.complete THEN un2 \ {u} ELSE (un2 \ {u}) \cup {[u EXCEPT !.inQ = FALSE, !.complete = TRUE, !.legit = TRUE]})
                        /\ AdvEffects(Ev.poff, retrQ, scanQ)
          /\ carry' = [carry EXCEPT ![Ev.tid] = None]
          /\ UNCHANGED <<W, totIn, totOut, bpb, eof, failed, emitQ, reordQ, written>> /\ Scalars
          /\ Exp(workUnits + (IF Ev.kind = 0 THEN 0 ELSE 1) + Stale(Ev.poff, retrQ), outSlots, Ev.kind = 1, parsingDone) /\ headOffs' = HeadOf(inputQ')

\* ---- retriever ----
TRetrBegin == /\ Step("RetrBegin") /\ ~parsingDone /\ retrQ # {} /\ carry[Ev.tid] = None
          /\ LET r == MinC(retrQ) IN
             /\ r.base = Abs(Ev.maj, Ev.bit) /\ r.cur = Abs(Ev.cmaj, Ev.cbit) /\ r.coff = Ev.coff /\ r.link = (Ev.link = 1)
             /\ CanAttach(r.coff) /\ r.coff >= headOffs
             /\ retrQ' = retrQ \ {r}
             /\ carry' = [carry EXCEPT ![Ev.tid] = [k |-> "retr", r |-> r]]
          /\ UNCHANGED <<W, totIn, totOut, bpb, eof, failed, inputQ, scanQ, emitQ, reordQ, orderQ, unord, written>> /\ Scalars
          /\ Exp(workUnits, outSlots, parseToken, parsingDone)
Lk(r) == CHOOSE u \in unord : u.base = r.base
TRetrEnd == /\ Step("RetrEnd") /\ carry[Ev.tid].k = "retr" /\ carry[Ev.tid].r.base = Abs(Ev.maj, Ev.bit)
          /\ (LET r == carry[Ev.tid].r
                 cur == Abs(Ev.cmaj, Ev.cbit)
                 r2 == [r EXCEPT !.cur = cur, !.coff = Ev.coff]
             IN
             CASE Ev.kind = "dead" ->
                    /\ parsingDone
                    /\ unord' = (IF r.link THEN unord \ {Lk(r)} ELSE unord)
                    /\ carry' = [carry EXCEPT ![Ev.tid] = None]
                    /\ UNCHANGED <<inputQ, scanQ, retrQ, emitQ>>
               [] Ev.kind = "redundant" ->
                    /\ r.link /\ Lk(r).complete /\ ~Lk(r).legit
                    /\ unord' = unord \ {Lk(r)}
                    /\ carry' = [carry EXCEPT ![Ev.tid] = None]
                    /\ UNCHANGED <<inputQ, scanQ, retrQ, emitQ>>
               [] Ev.kind = "more" ->
                    /\ Ev.rv = 1
                    /\ LET master == ~r.link \/ Lk(r).complete IN
                       /\ master = (Ev.master = 1)
                       /\ IF master THEN AdvEffects(Ev.coff, retrQ \cup {r2}, scanQ) /\ unord' = unord
                          ELSE /\ inputQ' = inputQ /\ scanQ' = scanQ /\ retrQ' = retrQ \cup {r2}
                               /\ unord' = (unord \ {Lk(r)}) \cup {[Lk(r) EXCEPT !.endOff = Ev.coff]}
                    /\ carry' = [carry EXCEPT ![Ev.tid] = None]
                    /\ UNCHANGED emitQ
               [] Ev.kind = "done" ->
                    /\ Ev.rv # 1
                    /\ LET master == ~r.link \/ Lk(r).complete IN
                       /\ master = (Ev.master = 1)
                       /\ IF master THEN AdvEffects(Ev.coff, retrQ, scanQ) /\ unord' = (IF r.link THEN unord \ {Lk(r)} ELSE unord)
                          ELSE /\ inputQ' = inputQ /\ scanQ' = scanQ /\ retrQ' = retrQ
                               /\ unord' = (unord \ {Lk(r)}) \cup {[Lk(r) EXCEPT !.complete = TRUE, !.endOff = Ev.coff]}
                    /\ carry' = [carry EXCEPT ![Ev.tid] = [k |-> "decode", base |-> r.base, st |-> Ev.rv]]
                    /\ UNCHANGED emitQ)
          /\ UNCHANGED <<W, totIn, totOut, bpb, eof, failed, reordQ, orderQ, written>> /\ Scalars
          /\ LET rr == carry[Ev.tid].r mm == ~rr.link \/ Lk(rr).complete IN
             Exp(workUnits + (IF Ev.kind \in {"dead", "redundant"} THEN 1 ELSE IF mm THEN Stale(Ev.coff, retrQ) ELSE 0), outSlots,
                 IF Ev.kind = "done" /\ mm THEN TRUE ELSE parseToken, parsingDone)
TRetrPush == /\ Step("RetrPush") /\ carry[Ev.tid].k = "decode" /\ carry[Ev.tid].base = Abs(Ev.maj, Ev.bit) /\ carry[Ev.tid].st = Ev.st
          /\ emitQ' = emitQ \cup {[base |-> <<carry[Ev.tid].base, 0>>, st |-> Ev.st]}
          /\ carry' = [carry EXCEPT ![Ev.tid] = None]
          /\ UNCHANGED <<W, totIn, totOut, bpb, eof, failed, inputQ, scanQ, retrQ, reordQ, orderQ, unord, written>> /\ Scalars
          /\ Exp(workUnits, outSlots, parseToken, parsingDone)

\* ---- emitter / reorder ----
TEmitBegin == /\ Step("EmitBegin") /\ emitQ # {} /\ outSlots > 0 /\ carry[Ev.tid] = None
          /\ LET e == MinB(emitQ) IN
             /\ e.base = <<Abs(Ev.maj, Ev.bit), Ev.sub>>
             /\ emitQ' = emitQ \ {e}
             /\ carry' = [carry EXCEPT ![Ev.tid] = [k |-> "emit", e |-> e]]
          /\ UNCHANGED <<W, totIn, totOut, bpb, eof, failed, inputQ, scanQ, retrQ, reordQ, orderQ, unord, written>> /\ Scalars
          /\ Exp(workUnits, outSlots - 1, parseToken, parsingDone)
TEmitEnd == /\ Step("EmitEnd") /\ carry[Ev.tid].k = "emit" /\ carry[Ev.tid].e.base = <<Abs(Ev.maj, Ev.bit), Ev.sub>>
          /\ LET e == carry[Ev.tid].e IN
             /\ (e.st # 0) => (Ev.st = e.st)                      \* a failed retrieval is passed through unchanged
             /\ reordQ' = reordQ \cup {[base |-> e.base, st |-> Ev.st]}
             /\ emitQ' = IF Ev.st = 1 THEN emitQ \cup {[e EXCEPT !.base = <<e.base[1], e.base[2] + 1>>]} ELSE emitQ
          /\ carry' = [carry EXCEPT ![Ev.tid] = None]
          /\ UNCHANGED <<W, totIn, totOut, bpb, eof, failed, inputQ, scanQ, retrQ, orderQ, unord, written>> /\ Scalars
          /\ Exp(workUnits + (IF Ev.st = 1 THEN 0 ELSE 1), outSlots, parseToken, parsingDone)
TReorder == /\ Step("Reorder") /\ reordQ # {} /\ carry[Ev.tid] = None
          /\ (LET o == MinB(reordQ) IN
             /\ o.base = <<Abs(Ev.maj, Ev.bit), Ev.sub>>
             /\ reordQ' = reordQ \ {o}
             /\ CASE Ev.kind = "bogus" -> /\ (IF orderQ = <<>> THEN TRUE ELSE BLt(o.base, Head(orderQ)))       \* never a confirmed block
                                          /\ orderQ' = orderQ /\ written' = written
                  [] Ev.kind = "part"  -> /\ orderQ # <<>> /\ o.base = Head(orderQ) /\ o.st = 1     \* only the block the parser confirmed next
                                          /\ orderQ' = <<<<o.base[1], o.base[2] + 1>>>> \o Tail(orderQ) /\ written' = Append(written, o.base)
                  [] Ev.kind = "last"  -> /\ orderQ # <<>> /\ o.base = Head(orderQ) /\ o.st = 0
                                          /\ orderQ' = Tail(orderQ) /\ written' = Append(written, o.base))
          /\ UNCHANGED <<W, totIn, totOut, bpb, eof, failed, inputQ, scanQ, retrQ, emitQ, unord, carry>> /\ Scalars
          /\ Exp(workUnits, outSlots + (IF Ev.kind = "bogus" THEN 1 ELSE 0), parseToken, parsingDone)
TWritten == /\ Step("Written")
          /\ UNCHANGED <<W, totIn, totOut, bpb, eof, failed, inputQ, scanQ, retrQ, emitQ, reordQ, orderQ, unord, carry, written>> /\ Scalars
          /\ outSlots' = outSlots + 1

\* ---- scanner ----
TScanBegin == /\ Step("ScanBegin") /\ ~parsingDone /\ scanQ # {} /\ workUnits > 0 /\ carry[Ev.tid] = None
          /\ LET s == MinP(scanQ) IN
             /\ s.p = Abs(Ev.maj, Ev.bit) /\ s.off = Ev.off /\ CanAttach(s.off) /\ s.off >= headOffs
             /\ scanQ' = scanQ \ {s}
             /\ carry' = [carry EXCEPT ![Ev.tid] = [k |-> "scan", s |-> s]]
          /\ UNCHANGED <<W, totIn, totOut, bpb, eof, failed, inputQ, retrQ, emitQ, reordQ, orderQ, unord, written>> /\ Scalars
          /\ Exp(workUnits - 1, outSlots, parseToken, parsingDone)
TScanEnd == /\ Step("ScanEnd") /\ carry[Ev.tid].k = "scan"
          /\ (CASE Ev.kind = "miss" -> UNCHANGED <<scanQ, retrQ, unord>>
               [] Ev.kind = "known" -> /\ Abs(Ev.maj, Ev.bit) <= ppos
                                       /\ scanQ' = (IF Ev.requeue = 1 THEN scanQ \cup {[p |-> Abs(Ev.maj, Ev.bit), off |-> Ev.off]} ELSE scanQ)
                                       /\ UNCHANGED <<retrQ, unord>>
               [] Ev.kind = "unique" -> LET b == Abs(Ev.maj, Ev.bit) IN
                                       /\ b > ppos /\ ~parsingDone
                                       /\ scanQ' = (IF Ev.requeue = 1 THEN scanQ \cup {[p |-> b, off |-> Ev.off]} ELSE scanQ)
                                       /\ retrQ' = retrQ \cup {[base |-> b, cur |-> b, coff |-> Ev.off, link |-> TRUE]}
                                       /\ unord' = unord \cup {[base |-> b, complete |-> FALSE, legit |-> FALSE, inQ |-> TRUE, endOff |-> Ev.off]})
          /\ carry' = [carry EXCEPT ![Ev.tid] = None]
          /\ UNCHANGED <<W, totIn, totOut, bpb, eof, failed, inputQ, emitQ, reordQ, orderQ, written>> /\ Scalars
          /\ Exp(workUnits + (IF Ev.kind = "unique" THEN 0 ELSE 1), outSlots, parseToken, parsingDone)

TUninit == /\ Step("Uninit") /\ eof /\ parsingDone /\ parseToken /\ workUnits = W /\ outSlots = totOut
           /\ inputQ = <<>> /\ scanQ = {} /\ retrQ = {} /\ emitQ = {} /\ reordQ = {} /\ orderQ = <<>> /\ UnordQ = {}
           /\ headOffs = tailOffs /\ Ev.wu = W /\ Ev.os = totOut /\ Ev.is = totIn /\ \A t \in 0..MaxTid : carry[t] = None
           /\ UNCHANGED <<W, totIn, totOut, bpb, workUnits, outSlots, parseToken, parsingDone, eof, failed, headOffs, tailOffs, inputQ, scanQ, retrQ, emitQ, reordQ, orderQ, unord, ppos, poff, carry, written>>

Next == TInit \/ TAvail \/ TAvailDrop \/ TEof \/ TParseBegin \/ TParseMore \/ TParseFinish \/ TParseErr \/ TParseBlock
        \/ TRetrBegin \/ TRetrEnd \/ TRetrPush \/ TEmitBegin \/ TEmitEnd \/ TReorder \/ TWritten \/ TScanBegin \/ TScanEnd \/ TUninit
Spec == Init /\ [][Next]_vars
NotAccepted == l <= Len(TraceLog)
=============================================================================
