SPECIFICATION Spec
INVARIANT NotAccepted Capacity Bounds AttachOK WrittenOrdered
CHECK_DEADLOCK FALSE
