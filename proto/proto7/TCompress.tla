---------------------------- MODULE TCompress ----------------------------
EXTENDS Naturals, Sequences, FiniteSets, TLC, Json, IOUtils

TraceLog == ndJsonDeserialize(IOEnv.TRACE)
THRESH == 2
None == [k |-> "none"]

VARIABLES l, W, totIn, totOut, workUnits, outSlots, eof, collQ, transQ, reordQ, order, carry
vars == <<l, W, totIn, totOut, workUnits, outSlots, eof, collQ, transQ, reordQ, order, carry>>

Ev == TraceLog[l]
Pos(e) == <<e.maj, e.min>>
NPos(e) == <<e.nmaj, e.nmin>>
PosLt(a,b) == a[1] < b[1] \/ (a[1] = b[1] /\ a[2] < b[2])
MinBy(S) == CHOOSE x \in S : \A y \in S : ~PosLt(y.pos, x.pos)

CanReorder == reordQ # {} /\ MinBy(reordQ).pos = order
CanTransmit == transQ # {} /\ (outSlots > THRESH \/ (outSlots > 0 /\ MinBy(transQ).pos = order))
CanCollect == collQ # {} /\ workUnits > 0
Select == IF CanReorder THEN "reorder" ELSE IF CanTransmit THEN "transmit" ELSE IF CanCollect THEN "collect" ELSE "null"

\* post-state scalars logged by the implementation must equal the spec's
Scalars == /\ workUnits' = Ev.wu /\ outSlots' = Ev.os
           /\ Cardinality(collQ') = Ev.cq /\ Cardinality(transQ') = Ev.tq /\ Cardinality(reordQ') = Ev.rq
Capacity == Cardinality(collQ) <= totIn /\ Cardinality(transQ) <= W /\ Cardinality(reordQ) <= totOut
Step(name) == l <= Len(TraceLog) /\ Ev.e = name /\ l' = l + 1

Init == /\ l = 1 /\ W = 0 /\ totIn = 0 /\ totOut = 0 /\ workUnits = 0 /\ outSlots = 0 /\ eof = FALSE
        /\ collQ = {} /\ transQ = {} /\ reordQ = {} /\ order = <<0,0>> /\ carry = [t \in 0..40 |-> None]

TInit == /\ Step("Init") /\ W' = Ev.W /\ totIn' = Ev.tin /\ totOut' = Ev.tout /\ workUnits' = Ev.W /\ outSlots' = Ev.tout
         /\ eof' = FALSE /\ collQ' = {} /\ transQ' = {} /\ reordQ' = {} /\ order' = <<0,0>> /\ carry' = [t \in 0..40 |-> None]
TAvail == /\ Step("Avail") /\ ~eof
          /\ collQ' = collQ \cup {[pos |-> Pos(Ev), left |-> Ev.left]}
          /\ UNCHANGED <<W, totIn, totOut, workUnits, outSlots, eof, transQ, reordQ, order, carry>> /\ Scalars
TCollectBegin == /\ Step("CollectBegin") /\ Select = "collect" /\ carry[Ev.tid] = None
          /\ LET ib == MinBy(collQ) IN
             /\ ib.pos = Pos(Ev) /\ ib.left = Ev.left
             /\ collQ' = collQ \ {ib} /\ workUnits' = workUnits - 1
             /\ carry' = [carry EXCEPT ![Ev.tid] = [k |-> "c", pos |-> ib.pos, left |-> ib.left, requeued |-> FALSE]]
          /\ UNCHANGED <<W, totIn, totOut, outSlots, eof, transQ, reordQ, order>> /\ Scalars
TCollectRequeue == /\ Step("CollectRequeue") /\ carry[Ev.tid].k = "c" /\ ~carry[Ev.tid].requeued
          /\ Pos(Ev) = <<carry[Ev.tid].pos[1], carry[Ev.tid].pos[2] + 1>> /\ Ev.left > 0 /\ Ev.left < carry[Ev.tid].left
          /\ collQ' = collQ \cup {[pos |-> Pos(Ev), left |-> Ev.left]}
          /\ carry' = [carry EXCEPT ![Ev.tid].requeued = TRUE]
          /\ UNCHANGED <<W, totIn, totOut, workUnits, outSlots, eof, transQ, reordQ, order>> /\ Scalars
TCollectEnd == /\ Step("CollectEnd") /\ carry[Ev.tid].k = "c"
          /\ Pos(Ev) = carry[Ev.tid].pos
          /\ NPos(Ev) = (IF carry[Ev.tid].requeued THEN <<Pos(Ev)[1], Pos(Ev)[2] + 1>> ELSE <<Pos(Ev)[1] + 1, 0>>)
          /\ transQ' = transQ \cup {[pos |-> Pos(Ev), next |-> NPos(Ev)]}
          /\ carry' = [carry EXCEPT ![Ev.tid] = None]
          /\ UNCHANGED <<W, totIn, totOut, workUnits, outSlots, eof, collQ, reordQ, order>> /\ Scalars
TTransmitBegin == /\ Step("TransmitBegin") /\ Select = "transmit" /\ carry[Ev.tid] = None
          /\ LET wb == MinBy(transQ) IN
             /\ wb.pos = Pos(Ev)
             /\ transQ' = transQ \ {wb} /\ outSlots' = outSlots - 1
             /\ carry' = [carry EXCEPT ![Ev.tid] = [k |-> "t", wb |-> wb]]
          /\ UNCHANGED <<W, totIn, totOut, workUnits, eof, collQ, reordQ, order>> /\ Scalars
TTransmitEnd == /\ Step("TransmitEnd") /\ carry[Ev.tid].k = "t" /\ carry[Ev.tid].wb.pos = Pos(Ev)
          /\ workUnits' = workUnits + 1 /\ reordQ' = reordQ \cup {carry[Ev.tid].wb}
          /\ carry' = [carry EXCEPT ![Ev.tid] = None]
          /\ UNCHANGED <<W, totIn, totOut, outSlots, eof, collQ, transQ, order>> /\ Scalars
TReorder == /\ Step("Reorder") /\ Select = "reorder" /\ carry[Ev.tid] = None
          /\ LET wb == MinBy(reordQ) IN
             /\ wb.pos = Pos(Ev) /\ wb.next = NPos(Ev) /\ wb.pos = order
             /\ reordQ' = reordQ \ {wb} /\ order' = wb.next
          /\ UNCHANGED <<W, totIn, totOut, workUnits, outSlots, eof, collQ, transQ, carry>> /\ Scalars
TWritten == /\ Step("Written") /\ outSlots' = outSlots + 1
          /\ UNCHANGED <<W, totIn, totOut, workUnits, eof, collQ, transQ, reordQ, order, carry>> /\ Scalars
TEof == /\ Step("Eof") /\ eof' = TRUE
          /\ UNCHANGED <<W, totIn, totOut, workUnits, outSlots, collQ, transQ, reordQ, order, carry>>
TUninit == /\ Step("Uninit") /\ eof /\ collQ = {} /\ transQ = {} /\ reordQ = {} /\ workUnits = W /\ outSlots = totOut
          /\ Ev.wu = W /\ Ev.os = totOut /\ Ev.is = totIn /\ \A t \in 0..40 : carry[t] = None
          /\ UNCHANGED <<W, totIn, totOut, workUnits, outSlots, eof, collQ, transQ, reordQ, order, carry>>
Next == TInit \/ TAvail \/ TCollectBegin \/ TCollectRequeue \/ TCollectEnd \/ TTransmitBegin \/ TTransmitEnd \/ TReorder \/ TWritten \/ TEof \/ TUninit
Spec == Init /\ [][Next]_vars
NotAccepted == l <= Len(TraceLog)
=============================================================================
