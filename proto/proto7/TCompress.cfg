SPECIFICATION Spec
INVARIANT NotAccepted Capacity
CHECK_DEADLOCK FALSE
