SPECIFICATION Spec
INVARIANT P1 P2
CHECK_DEADLOCK FALSE
