---- MODULE PM ----
EXTENDS Naturals, Sequences, SequencesExt, FiniteSets, TLC, Json, IOUtils
VARIABLE x
\* package: pair up consecutive items
Package(s) == [i \in 1..(Len(s) \div 2) |-> s[2*i-1] + s[2*i]]
Lt(a,b) == a < b
Merge(a, b) == SortSeq(a \o b, Lt)
RECURSIVE Level(_,_,_)
Level(leaves, cur, l) == IF l = 1 THEN cur ELSE Level(leaves, Merge(leaves, Package(cur)), l - 1)
SumFirst(s, k) == FoldLeft(LAMBDA a, b : a + b, 0, SubSeq(s, 1, k))
PMCost(freq, L) == LET leaves == SortSeq(freq, Lt)
                       n == Len(freq)
                   IN SumFirst(Level(leaves, leaves, L), 2*n - 2)
\* brute force for small n
Kraft(l, L) == LET F[i \in 0..Len(l)] == IF i = 0 THEN 0 ELSE F[i-1] + 2^(L - l[i]) IN F[Len(l)]
Cost(l, f) == LET F[i \in 0..Len(l)] == IF i = 0 THEN 0 ELSE F[i-1] + l[i]*f[i] IN F[Len(l)]
OptCost(f, L) == LET n == Len(f)
                     C == {Cost(l, f) : l \in {v \in [1..n -> 1..L] : Kraft(v, L) = 2^L}}
                 IN CHOOSE c \in C : \A d \in C : c <= d
Big == [i \in 1..258 |-> ((i * 7919) - ((i * 7919) \div 1000) * 1000) + 1]
Fib == [i \in 1..30 |-> IF i <= 2 THEN 1 ELSE 0]
Init == x = 0
Next == x = 0 /\ x' = 1
Spec == Init /\ [][Next]_x
Small == \A f \in [1..4 -> 1..4] : \A L \in 2..4 : (2^L >= 4) => PMCost(f, L) = OptCost(f, L)
P1 == x = 1 => PrintT(<<"big", PMCost(Big, 20), PMCost(Big, 9)>>)
P2 == x = 1 => PrintT(<<"small", Small>>)
====
