------------------------------ MODULE BZ2 ------------------------------
(* Prototype: declarative bzip2 block/stream format on tiny blocks.        *)
EXTENDS Naturals, Sequences, SequencesExt, FiniteSets, FiniteSetsExt, TLC, Json, Randomization

\* ---------- bit helpers (bits are 0/1, MSB first) ----------
Bits(n, v) == [i \in 1..n |-> (v \div (2^(n-i))) % 2]
Xor(a, b) == IF a = b THEN 0 ELSE 1
Flatten(ss) == FoldLeft(LAMBDA a, b : a \o b, <<>>, ss)
ToNum(bs) == FoldLeft(LAMBDA acc, b : 2*acc + b, 0, bs)

\* ---------- CRC-32 (bzip2: MSB first, poly 04C11DB7), state = 32 bits ----------
Poly == Bits(16, 1217) \o Bits(16, 7607)          \* 0x04C1, 0x1DB7
CrcBit(crc, b) == LET top == Xor(crc[1], b)
                      sh == Tail(crc) \o <<0>>
                  IN IF top = 1 THEN [i \in 1..32 |-> Xor(sh[i], Poly[i])] ELSE sh
CrcByte(crc, byte) == FoldLeft(CrcBit, crc, Bits(8, byte))
Crc32(bytes) == LET c == FoldLeft(CrcByte, [i \in 1..32 |-> 1], bytes) IN [i \in 1..32 |-> 1 - c[i]]
RotL1(c) == Tail(c) \o <<c[1]>>
Combine(cc, c) == LET r == RotL1(cc) IN [i \in 1..32 |-> Xor(r[i], c[i])]

\* ---------- block semantics ----------
\* used: strictly increasing sequence of byte values; syms: symbols 0=RUNA 1=RUNB 2..n = MTF index 1..n-1, n+1 = EOB
EOB(used) == Len(used) + 1
MoveToFront(l, k) == <<l[k]>> \o SubSeq(l, 1, k-1) \o SubSeq(l, k+1, Len(l))
Rep(x, n) == [i \in 1..n |-> x]
\* state: <<mtf list, output, run, shift>>
SymStep(st, s) ==
  LET l == st[1] out == st[2] run == st[3] sh == st[4] IN
  IF s < 2 THEN <<l, out, run + (s+1) * 2^sh, sh + 1>>
  ELSE LET out1 == out \o Rep(l[1], run) IN
       IF s = Len(l) + 1 THEN <<l, out1, 0, 0>>
       ELSE LET l2 == MoveToFront(l, s) IN <<l2, Append(out1, l2[1]), 0, 0>>   \* MTF index s-1 (0-based) = position s (1-based)
TT(used, syms) == FoldLeft(SymStep, <<used, <<>>, 0, 0>>, syms)[2]
\* inverse BWT: stable sort of positions by byte, then follow the chain from idx (0-based)
IBWT(tt, idx) ==
  LET n == Len(tt)
      ord == SortSeq([i \in 1..n |-> i], LAMBDA a, b : tt[a] < tt[b] \/ (tt[a] = tt[b] /\ a < b))
      step(acc, k) == LET p == acc[1] IN <<ord[p], Append(acc[2], tt[p])>>
  IN IF n = 0 THEN <<>> ELSE FoldLeft(step, <<ord[idx+1], <<>>>>, [k \in 1..n |-> k])[2]
\* un-RLE: 4 equal bytes are followed by a count
UnRleStep(acc, b) ==
  LET out == acc[1] last == acc[2] run == acc[3] IN
  IF run = 4 THEN <<out \o Rep(last, b), 256, 0>>                \* b is the repeat count
  ELSE IF b = last THEN <<Append(out, b), b, run + 1>>
  ELSE <<Append(out, b), b, 1>>
UnRleAcc(d) == FoldLeft(UnRleStep, <<<<>>, 256, 0>>, d)
Plain(blk) == UnRleAcc(IBWT(TT(blk.used, blk.syms), blk.idx))[1]
MissingCount(blk) == UnRleAcc(IBWT(TT(blk.used, blk.syms), blk.idx))[3] = 4

\* ---------- serialisation ----------
Canon(lens) ==   \* symbol (1-based) -> <<code, len>>
  LET n == Len(lens)
      order == SortSeq([i \in 1..n |-> i], LAMBDA a, b : lens[a] < lens[b] \/ (lens[a] = lens[b] /\ a < b))
      \* acc = <<next code, previous length, map symbol -> code>>
      step(acc, s) == LET c == acc[1] * 2^(lens[s] - acc[2]) IN <<c + 1, lens[s], [acc[3] EXCEPT ![s] = <<c, lens[s]>>]>>
  IN FoldLeft(step, <<0, lens[order[1]], [s \in 1..n |-> <<0, 0>>]>>, order)[3]
Unary(k) == Rep(1, k) \o <<0>>
DeltaBits(lens) ==
  LET step(acc, tgt) == LET cur == acc[1]
                            up == IF tgt > cur THEN Flatten(Rep(<<1,0>>, tgt - cur)) ELSE <<>>
                            dn == IF tgt < cur THEN Flatten(Rep(<<1,1>>, cur - tgt)) ELSE <<>>
                        IN <<tgt, acc[2] \o up \o dn \o <<0>>>>
  IN FoldLeft(step, <<lens[1], Bits(5, lens[1])>>, lens)[2]
BitmapBits(used) ==
  LET S == {used[i] : i \in 1..Len(used)}
      grp(g) == [b \in 1..16 |-> IF (16*g + b - 1) \in S THEN 1 ELSE 0]
      has(g) == \E x \in S : x \div 16 = g
  IN [g \in 1..16 |-> IF has(g-1) THEN 1 ELSE 0] \o Flatten([g \in 1..16 |-> IF has(g-1) THEN grp(g-1) ELSE <<>>])
\* selectors are given as tree numbers (0-based); MTF-coded on the wire
SelMtf(sels, nt) ==
  LET step(acc, sel) == LET l == acc[1] pos == CHOOSE p \in 1..nt : l[p] = sel
                        IN <<MoveToFront(l, pos), acc[2] \o Unary(pos-1)>>
  IN FoldLeft(step, <<[i \in 1..nt |-> i-1], <<>>>>, sels)[2]
SymBits(blk) ==
  LET codes == [t \in 1..Len(blk.tables) |-> Canon(blk.tables[t])]
  IN Flatten([i \in 1..Len(blk.syms) |-> LET c == codes[blk.sels[((i-1) \div 50) + 1] + 1][blk.syms[i] + 1] IN Bits(c[2], c[1])])
BlockBits(blk) ==
  Bits(24, 3227993) \o Bits(24, 2511705)                \* 0x314159 0x265359
  \o Crc32(Plain(blk)) \o <<blk.rand>> \o Bits(24, blk.idx)
  \o BitmapBits(blk.used) \o Bits(3, Len(blk.tables)) \o Bits(15, Len(blk.sels))
  \o SelMtf(blk.sels, Len(blk.tables))
  \o Flatten([t \in 1..Len(blk.tables) |-> DeltaBits(blk.tables[t])])
  \o SymBits(blk)
StreamBits(level, blks) ==
  LET crcs == [i \in 1..Len(blks) |-> Crc32(Plain(blks[i]))]
      comb == FoldLeft(Combine, [i \in 1..32 |-> 0], crcs)
  IN Bits(8, 66) \o Bits(8, 90) \o Bits(8, 104) \o Bits(8, 48 + level)
     \o Flatten([i \in 1..Len(blks) |-> BlockBits(blks[i])])
     \o Bits(24, 1536581) \o Bits(24, 3690640) \o comb   \* 0x177245 0x385090
Pad8(bs) == bs \o Rep(0, (8 - (Len(bs) % 8)) % 8)
ToBytes(bs) == LET p == Pad8(bs) IN [i \in 1..(Len(p) \div 8) |-> ToNum(SubSeq(p, 8*i-7, 8*i))]

\* ---------- a random tiny valid block ----------
RandBlock ==
  LET nu == RandomElement(1..5)
      used == SetToSortSeq(RandomSubset(nu, 60..70), <)
      as == nu + 2
      ns == RandomElement(1..60)
      body == [i \in 1..ns |-> RandomElement(0..nu)]      \* RUNA, RUNB, MTF 1..nu-1
      syms == body \o <<nu + 1>>
      nsel == (Len(syms) + 49) \div 50
      \* complete code: lengths k,k,...: use 1,2,3,..,as-1,as-1
      lensA == [s \in 1..as |-> IF s < as THEN s ELSE as - 1]
      lensB == [s \in 1..as |-> IF s = 1 THEN as - 1 ELSE IF s = 2 THEN as - 1 ELSE as + 1 - s]
      sels == [g \in 1..nsel |-> RandomElement(0..1)]
      tt == TT(used, syms)
  IN [rand |-> 0, idx |-> RandomElement(0..(IF Len(tt) > 0 THEN Len(tt)-1 ELSE 0)), used |-> used,
      tables |-> <<lensA, lensB>>, sels |-> sels, syms |-> syms, ttlen |-> Len(tt)]

VARIABLE x
Init == x = 0
Next == x < 20 /\ x' = x + 1
Spec == Init /\ [][Next]_x
Emit == LET b1 == RandBlock b2 == RandBlock
            ok == b1.ttlen > 0 /\ b2.ttlen > 0
        IN IF ok THEN PrintT(ToJson([bytes |-> ToBytes(StreamBits(3, <<b1, b2>>)), plain |-> Plain(b1) \o Plain(b2)])) ELSE TRUE
=============================================================================
