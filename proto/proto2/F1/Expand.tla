---------------------------- MODULE Expand ----------------------------
EXTENDS Naturals, Sequences, FiniteSets, TLC

CONSTANTS W, TotIn, TotOut, G, T,   \* workers, slots, cells per I/O block, total cells
          TB,       \* sequence of true blocks [base, end, outs, ok, scan]
          Fin,      \* [pos, ok]  where the parser reports FINISH (ok) or a fatal error
          Cands,    \* set of spurious candidates [base, end, outs, ok]
          Ultra

Workers == 1..W
SRC == W + 1
SNK == W + 2
SCAN_THRESH == 1
EMIT_THRESH == 2
NB == (T + G - 1) \div G
Exact == T = NB * G
BlkEnd(k) == IF (k+1)*G < T THEN (k+1)*G ELSE T
Min(a,b) == IF a < b THEN a ELSE b
None == [k |-> "none"]

AllBases == {TB[i].base : i \in 1..Len(TB)} \cup {c.base : c \in Cands}
ScanBases == {TB[i].base : i \in {j \in 1..Len(TB) : TB[j].scan}} \cup {c.base : c \in Cands}
Desc(b) == IF \E i \in 1..Len(TB) : TB[i].base = b
           THEN LET i == CHOOSE i \in 1..Len(TB) : TB[i].base = b IN [base |-> b, end |-> TB[i].end, outs |-> TB[i].outs, ok |-> TB[i].ok]
           ELSE CHOOSE c \in Cands : c.base = b

VARIABLES holder, wpc, wloc, nextTask, waiting, failed,
          workUnits, outSlots, inSlots, eof, reqClose,
          headBlk, tailBlk, refc, freed,
          scanQ, retrQ, emitQ, reordQ, orderQ, unord,
          parseToken, parsingDone, parserPos, nparsed,
          spc, nread, sinkQ, kpc, written

vars == <<holder, wpc, wloc, nextTask, waiting, failed, workUnits, outSlots, inSlots, eof, reqClose,
          headBlk, tailBlk, refc, freed, scanQ, retrQ, emitQ, reordQ, orderQ, unord,
          parseToken, parsingDone, parserPos, nparsed, spc, nread, sinkQ, kpc, written>>

tailOffs == Min(tailBlk * G, T)
headOffs == Min(headBlk * G, T)
CanAttach(p) == p < tailOffs \/ (eof /\ p = tailOffs)

PLt(a,b) == a[1] < b[1] \/ (a[1] = b[1] /\ a[2] < b[2])
MinPos(S) == CHOOSE x \in S : \A y \in S : x <= y
MinBase(S) == CHOOSE x \in S : \A y \in S : ~PLt(y.base, x.base)
MinRetr(S) == CHOOSE x \in S : \A y \in S : x.cur <= y.cur   \* retr_q is keyed by curr_pos.pos (first member)
UnordQ == {u \in unord : u.inQ}
MinU(S) == CHOOSE x \in S : \A y \in S : x.base <= y.base

CanReorder == reordQ # {} /\ \/ (orderQ # <<>> /\ ~PLt(Head(orderQ), MinBase(reordQ).base))
                             \/ (orderQ = <<>> /\ parsingDone)
CanParse == ~parsingDone /\ parseToken /\ workUnits > 0 /\ CanAttach(parserPos)
CanEmit == emitQ # {} /\ (outSlots > EMIT_THRESH \/ (outSlots > 0 /\ orderQ # <<>> /\ ~PLt(Head(orderQ), MinBase(emitQ).base)))
CanRetrieve == retrQ # {} /\ CanAttach(MinRetr(retrQ).cur)
CanScan == (workUnits > SCAN_THRESH \/ (workUnits > 0 /\ ~parseToken)) /\ ~Ultra /\ scanQ # {} /\ CanAttach(MinPos(scanQ))
Select == IF CanReorder THEN "reorder" ELSE IF CanParse THEN "parse" ELSE IF CanEmit THEN "emit"
          ELSE IF CanRetrieve THEN "retrieve" ELSE IF CanScan THEN "scan" ELSE "null"
Finished == eof /\ parsingDone /\ parseToken /\ workUnits = W /\ outSlots = TotOut

Unlock(base) ==
  /\ nextTask' = Select'
  /\ holder' = 0
  /\ IF (nextTask' # "null" \/ Finished') /\ waiting # {}
     THEN \E x \in waiting : waiting' = waiting \ {x} /\ wpc' = [base EXCEPT ![x] = "woken"]
     ELSE waiting' = waiting /\ wpc' = base
\* return from task->run() with the lock held; select_task() follows
Return(w) == /\ nextTask' = Select' /\ holder' = holder /\ waiting' = waiting /\ wpc' = [wpc EXCEPT ![w] = "loop"]

Init == /\ holder = 0 /\ wpc = [w \in Workers |-> "start"] /\ wloc = [w \in Workers |-> None]
        /\ nextTask = "null" /\ waiting = {} /\ failed = FALSE
        /\ workUnits = W /\ outSlots = TotOut /\ inSlots = TotIn /\ eof = FALSE /\ reqClose = FALSE
        /\ headBlk = 0 /\ tailBlk = 0 /\ refc = [k \in 0..NB |-> 0] /\ freed = {}
        /\ scanQ = {} /\ retrQ = {} /\ emitQ = {} /\ reordQ = {} /\ orderQ = <<>> /\ unord = {}
        /\ parseToken = TRUE /\ parsingDone = FALSE /\ parserPos = 0 /\ nparsed = 0
        /\ spc = "take" /\ nread = 0 /\ sinkQ = <<>> /\ kpc = "idle" /\ written = <<>>

\* ---- input block bookkeeping -------------------------------------------
\* attach at position p: pin the containing block (none at tail)
Pin(p) == IF p = tailOffs THEN refc ELSE [refc EXCEPT ![p \div G] = @ + 1]
Blk(p) == p \div G
\* result of unpinning block k (k = NB means "no block") given the *new* head
\* buffers are freed when shifted out of input_q and unpinned
FreeSet(rc, hb) == {k \in 0..(NB-1) : k < hb /\ rc[k] = 0 /\ k < tailBlk}
\* advance(pos): shift fully consumed blocks, drop stale retrieve and scan jobs
AdvHead(pos, hb) == LET S == {k \in hb..tailBlk : \A j \in hb..(k-1) : BlkEnd(j) <= pos /\ j < tailBlk} IN
                    CHOOSE k \in S : \A j \in S : j <= k
\* all state updates of advance() given the already-unpinned refcounts rc;
\* assigns parserPos, headBlk, retrQ (from rq), scanQ (from sq), workUnits (from wu), freed, inSlots
Advance(pos, rc, rq, sq, wu) ==
   LET hb == AdvHead(pos, headBlk)
       ho == Min(hb * G, T)
       dead == {r \in rq : r.cur < ho}
       fs == FreeSet(rc, hb)
   IN /\ parserPos' = pos
      /\ headBlk' = hb
      /\ retrQ' = rq \ dead
      /\ scanQ' = {s \in sq : s >= ho}
      /\ workUnits' = wu + Cardinality(dead)
      /\ freed' = fs
      /\ inSlots' = inSlots + Cardinality(fs \ freed)
NoAdvance(rc, rq, sq, wu) ==
   LET fs == FreeSet(rc, headBlk) IN
      /\ parserPos' = parserPos /\ headBlk' = headBlk /\ retrQ' = rq /\ scanQ' = sq /\ workUnits' = wu
      /\ freed' = fs /\ inSlots' = inSlots + Cardinality(fs \ freed)
Unpin(p) == IF p = tailOffs /\ p = T /\ eof /\ FALSE THEN refc ELSE refc  \* placeholder (see wloc.pin)

---------------------------------------------------------------------------
WLock(w) == /\ ~failed /\ wpc[w] \in {"start", "woken"} /\ holder = 0
            /\ holder' = w /\ wpc' = [wpc EXCEPT ![w] = "loop"]
            /\ UNCHANGED <<wloc, nextTask, waiting, failed, workUnits, outSlots, inSlots, eof, reqClose, headBlk, tailBlk, refc, freed, scanQ, retrQ, emitQ, reordQ, orderQ, unord, parseToken, parsingDone, parserPos, nparsed, spc, nread, sinkQ, kpc, written>>
Relock(w, from, to) == /\ ~failed /\ wpc[w] = from /\ holder = 0
            /\ holder' = w /\ wpc' = [wpc EXCEPT ![w] = to]
            /\ UNCHANGED <<wloc, nextTask, waiting, failed, workUnits, outSlots, inSlots, eof, reqClose, headBlk, tailBlk, refc, freed, scanQ, retrQ, emitQ, reordQ, orderQ, unord, parseToken, parsingDone, parserPos, nparsed, spc, nread, sinkQ, kpc, written>>
WIdle(w) == /\ wpc[w] = "loop" /\ holder = w /\ nextTask = "null"
            /\ IF Finished
               THEN /\ wpc' = [x \in Workers |-> IF x = w THEN "done" ELSE IF x \in waiting THEN "woken" ELSE wpc[x]]
                    /\ waiting' = {}
               ELSE /\ wpc' = [wpc EXCEPT ![w] = "wait"] /\ waiting' = waiting \cup {w}
            /\ holder' = 0
            /\ UNCHANGED <<wloc, nextTask, failed, workUnits, outSlots, inSlots, eof, reqClose, headBlk, tailBlk, refc, freed, scanQ, retrQ, emitQ, reordQ, orderQ, unord, parseToken, parsingDone, parserPos, nparsed, spc, nread, sinkQ, kpc, written>>

\* ---- do_parse ----
ParseTarget == IF nparsed < Len(TB) THEN TB[nparsed+1].base ELSE Fin.pos
ParseBegin(w) ==
   /\ wpc[w] = "loop" /\ holder = w /\ nextTask = "parse"
   /\ parseToken' = FALSE /\ workUnits' = workUnits - 1
   /\ refc' = Pin(parserPos)
   /\ \E coin \in BOOLEAN : wloc' = [wloc EXCEPT ![w] = [k |-> "p", pin |-> IF parserPos = tailOffs THEN NB ELSE Blk(parserPos), from |-> parserPos, coin |-> coin]]
   /\ UNCHANGED <<failed, outSlots, inSlots, eof, reqClose, headBlk, tailBlk, freed, scanQ, retrQ, emitQ, reordQ, orderQ, unord, parsingDone, parserPos, nparsed, spc, nread, sinkQ, kpc, written>>
   /\ Unlock([wpc EXCEPT ![w] = "p_parsing"])
ParseEndLock(w) == Relock(w, "p_parsing", "p_end")
ParseEnd(w) ==
   /\ wpc[w] = "p_end" /\ holder = w
   /\ LET pin == wloc[w].pin
          from == wloc[w].from
          tgt == ParseTarget
          atTail == pin = NB                     \* attached at tail_offs with eof
          lim == IF atTail THEN from ELSE BlkEnd(pin)
          to == Min(tgt, lim)
          reached == to = tgt /\ (nparsed < Len(TB) \/ atTail \/ (tgt < T /\ (tgt < lim \/ wloc[w].coin)))
          rc == IF atTail THEN refc ELSE [refc EXCEPT ![pin] = @ - 1]
      IN
      IF ~reached THEN      \* MORE
         /\ refc' = rc
         /\ Advance(Min(to, tailOffs), rc, retrQ, scanQ, workUnits + 1)
         /\ parseToken' = TRUE
         /\ wloc' = [wloc EXCEPT ![w] = None]
         /\ UNCHANGED <<failed, outSlots, eof, reqClose, tailBlk, emitQ, reordQ, orderQ, unord, parsingDone, nparsed, spc, nread, sinkQ, kpc, written>>
         /\ Return(w)
      ELSE IF nparsed = Len(TB) THEN
         IF ~Fin.ok THEN   \* parse error -> failf
            /\ failed' = TRUE
            /\ UNCHANGED <<holder, wpc, wloc, nextTask, waiting, workUnits, outSlots, inSlots, eof, reqClose, headBlk, tailBlk, refc, freed, scanQ, retrQ, emitQ, reordQ, orderQ, unord, parseToken, parsingDone, parserPos, nparsed, spc, nread, sinkQ, kpc, written>>
         ELSE              \* FINISH
            /\ reqClose' = TRUE /\ parseToken' = TRUE /\ parsingDone' = TRUE
            /\ refc' = rc
            /\ parserPos' = to
            /\ headBlk' = tailBlk
            /\ LET fs == FreeSet(rc, tailBlk) IN freed' = fs /\ inSlots' = inSlots + Cardinality(fs \ freed)
            /\ workUnits' = workUnits + Cardinality(retrQ) + 1
            /\ retrQ' = {} /\ scanQ' = {}
            /\ unord' = {[u EXCEPT !.inQ = FALSE, !.complete = TRUE, !.legit = FALSE] : u \in {x \in unord : ~(x.inQ /\ x.complete)}}
            /\ wloc' = [wloc EXCEPT ![w] = None]
            /\ UNCHANGED <<failed, outSlots, eof, tailBlk, emitQ, reordQ, orderQ, nparsed, spc, nread, sinkQ, kpc, written>>
            /\ Return(w)
      ELSE                 \* OK: a block header was parsed, parser_bs = to
         LET stale == {u \in UnordQ : u.base < to}
             un1 == {u \in unord : ~(u \in stale /\ u.complete)}                      \* free complete stale ones
             un2 == {IF u \in stale THEN [u EXCEPT !.inQ = FALSE, !.complete = TRUE, !.legit = FALSE] ELSE u : u \in un1}
             hit == {u \in UnordQ : u.base = to}
         IN
         /\ orderQ' = Append(orderQ, <<to, 0>>)
         /\ nparsed' = nparsed + 1
         /\ refc' = rc
         /\ IF hit # {} THEN
               LET u == CHOOSE u \in hit : TRUE IN
               /\ Advance(u.endPos, rc, retrQ, scanQ, workUnits + 1)
               /\ IF u.complete THEN /\ parseToken' = TRUE /\ unord' = un2 \ {u}
                                ELSE /\ parseToken' = FALSE /\ unord' = (un2 \ {u}) \cup {[u EXCEPT !.inQ = FALSE, !.complete = TRUE, !.legit = TRUE]}
            ELSE
               /\ Advance(to, rc, retrQ \cup {[base |-> to, cur |-> to, link |-> 0]}, scanQ, workUnits)
               /\ parseToken' = FALSE /\ unord' = un2
         /\ wloc' = [wloc EXCEPT ![w] = None]
         /\ UNCHANGED <<failed, outSlots, eof, reqClose, tailBlk, emitQ, reordQ, parsingDone, spc, nread, sinkQ, kpc, written>>
         /\ Return(w)

\* ---- do_retrieve ----
RetrBegin(w) ==
   /\ wpc[w] = "loop" /\ holder = w /\ nextTask = "retrieve"
   /\ LET rb == MinRetr(retrQ) IN
      /\ retrQ' = retrQ \ {rb}
      /\ refc' = Pin(rb.cur)
      /\ wloc' = [wloc EXCEPT ![w] = [k |-> "r", rb |-> rb, pin |-> IF rb.cur = tailOffs THEN NB ELSE Blk(rb.cur)]]
   /\ UNCHANGED <<failed, workUnits, outSlots, inSlots, eof, reqClose, headBlk, tailBlk, freed, scanQ, emitQ, reordQ, orderQ, unord, parseToken, parsingDone, parserPos, nparsed, spc, nread, sinkQ, kpc, written>>
   /\ Unlock([wpc EXCEPT ![w] = "r_retrieving"])
RetrEndLock(w) == Relock(w, "r_retrieving", "r_end")
Link(l) == CHOOSE u \in unord : u.base = l
RetrEnd(w) ==
   /\ wpc[w] = "r_end" /\ holder = w
   /\ LET rb == wloc[w].rb
          pin == wloc[w].pin
          d == Desc(rb.base)
          atTail == pin = NB
          to == IF atTail THEN rb.cur ELSE Min(d.end, BlkEnd(pin))
          final == atTail \/ to = d.end          \* at tail with eof: ERR_EOF
          ok == ~atTail /\ d.ok
          cur == Min(to, tailOffs)
          rc == IF atTail THEN refc ELSE [refc EXCEPT ![pin] = @ - 1]
          hasL == rb.link # 0
          lk == Link(rb.link)
      IN
      /\ refc' = rc
      /\ IF parsingDone THEN
            /\ NoAdvance(rc, retrQ, scanQ, workUnits + 1)
            /\ unord' = (IF hasL THEN unord \ {lk} ELSE unord)    \* (leaked in the C code; dropped here)
            /\ wloc' = [wloc EXCEPT ![w] = None]
            /\ UNCHANGED <<failed, outSlots, eof, reqClose, tailBlk, emitQ, reordQ, orderQ, parseToken, parsingDone, nparsed, spc, nread, sinkQ, kpc, written>>
            /\ Return(w)
         ELSE IF hasL /\ lk.complete /\ ~lk.legit THEN
            /\ NoAdvance(rc, retrQ, scanQ, workUnits + 1)
            /\ unord' = unord \ {lk}
            /\ wloc' = [wloc EXCEPT ![w] = None]
            /\ UNCHANGED <<failed, outSlots, eof, reqClose, tailBlk, emitQ, reordQ, orderQ, parseToken, parsingDone, nparsed, spc, nread, sinkQ, kpc, written>>
            /\ Return(w)
         ELSE
            LET master == ~hasL \/ lk.complete
                stale == ~final /\ ~master /\ cur < headOffs       \* FIX 2: overtaken by the parser
                rq1 == IF final \/ stale THEN retrQ ELSE retrQ \cup {[rb EXCEPT !.cur = cur]}
            IN
            /\ IF master THEN Advance(cur, rc, rq1, scanQ, workUnits) ELSE NoAdvance(rc, rq1, scanQ, IF stale THEN workUnits + 1 ELSE workUnits)
            /\ IF ~final THEN
                  /\ unord' = (IF master THEN unord ELSE (unord \ {lk}) \cup {[lk EXCEPT !.endPos = cur]})
                  /\ wloc' = [wloc EXCEPT ![w] = None]
                  /\ UNCHANGED <<failed, outSlots, eof, reqClose, tailBlk, emitQ, reordQ, orderQ, parseToken, parsingDone, nparsed, spc, nread, sinkQ, kpc, written>>
                  /\ Return(w)
               ELSE
                  /\ IF hasL /\ ~lk.complete
                     THEN /\ unord' = (unord \ {lk}) \cup {[lk EXCEPT !.complete = TRUE, !.endPos = cur]} /\ parseToken' = parseToken
                     ELSE /\ unord' = (IF hasL THEN unord \ {lk} ELSE unord) /\ parseToken' = TRUE
                  /\ wloc' = [wloc EXCEPT ![w] = [k |-> "d", eb |-> [base |-> <<rb.base, 0>>, left |-> IF ok THEN d.outs ELSE 1, ok |-> ok]]]
                  /\ UNCHANGED <<failed, outSlots, eof, reqClose, tailBlk, emitQ, reordQ, orderQ, parsingDone, nparsed, spc, nread, sinkQ, kpc, written>>
                  /\ Unlock([wpc EXCEPT ![w] = "r_decoding"])
RetrPushLock(w) == Relock(w, "r_decoding", "r_push")
RetrPush(w) ==
   /\ wpc[w] = "r_push" /\ holder = w
   /\ emitQ' = emitQ \cup {wloc[w].eb}
   /\ wloc' = [wloc EXCEPT ![w] = None]
   /\ UNCHANGED <<failed, workUnits, outSlots, inSlots, eof, reqClose, headBlk, tailBlk, refc, freed, scanQ, retrQ, reordQ, orderQ, unord, parseToken, parsingDone, parserPos, nparsed, spc, nread, sinkQ, kpc, written>>
   /\ Return(w)

\* ---- do_emit ----
EmitBegin(w) ==
   /\ wpc[w] = "loop" /\ holder = w /\ nextTask = "emit"
   /\ LET eb == MinBase(emitQ) IN
      /\ emitQ' = emitQ \ {eb} /\ outSlots' = outSlots - 1
      /\ wloc' = [wloc EXCEPT ![w] = [k |-> "e", eb |-> eb]]
   /\ UNCHANGED <<failed, workUnits, inSlots, eof, reqClose, headBlk, tailBlk, refc, freed, scanQ, retrQ, reordQ, orderQ, unord, parseToken, parsingDone, parserPos, nparsed, spc, nread, sinkQ, kpc, written>>
   /\ Unlock([wpc EXCEPT ![w] = "e_emitting"])
EmitEndLock(w) == Relock(w, "e_emitting", "e_end")
EmitEnd(w) ==
   /\ wpc[w] = "e_end" /\ holder = w
   /\ LET eb == wloc[w].eb
          more == eb.ok /\ eb.left > 1
          ob == [base |-> eb.base, st |-> IF more THEN "more" ELSE IF eb.ok THEN "ok" ELSE "err"]
      IN /\ reordQ' = reordQ \cup {ob}
         /\ IF more THEN /\ emitQ' = emitQ \cup {[eb EXCEPT !.base = <<eb.base[1], eb.base[2]+1>>, !.left = eb.left - 1]} /\ workUnits' = workUnits
                    ELSE /\ emitQ' = emitQ /\ workUnits' = workUnits + 1
   /\ wloc' = [wloc EXCEPT ![w] = None]
   /\ UNCHANGED <<failed, outSlots, inSlots, eof, reqClose, headBlk, tailBlk, refc, freed, scanQ, retrQ, orderQ, unord, parseToken, parsingDone, parserPos, nparsed, spc, nread, sinkQ, kpc, written>>
   /\ Return(w)

\* ---- do_reorder (entirely under lock) ----
Reorder(w) ==
   /\ wpc[w] = "loop" /\ holder = w /\ nextTask = "reorder"
   /\ LET ob == MinBase(reordQ) IN
      IF orderQ = <<>> \/ PLt(ob.base, Head(orderQ)) THEN   \* bogus
         /\ reordQ' = reordQ \ {ob} /\ outSlots' = outSlots + 1
         /\ UNCHANGED <<failed, orderQ, sinkQ>>
      ELSE IF ob.st = "err" THEN
         /\ failed' = TRUE /\ UNCHANGED <<reordQ, outSlots, orderQ, sinkQ>>
      ELSE
         /\ reordQ' = reordQ \ {ob}
         /\ orderQ' = IF ob.st = "more" THEN <<<<Head(orderQ)[1], Head(orderQ)[2] + 1>>>> \o Tail(orderQ) ELSE Tail(orderQ)
         /\ sinkQ' = Append(sinkQ, ob.base)
         /\ UNCHANGED <<failed, outSlots>>
   /\ UNCHANGED <<wloc, workUnits, inSlots, eof, reqClose, headBlk, tailBlk, refc, freed, scanQ, retrQ, emitQ, unord, parseToken, parsingDone, parserPos, nparsed, spc, nread, kpc, written>>
   /\ IF failed' THEN UNCHANGED <<holder, wpc, nextTask, waiting>> ELSE Return(w)

\* ---- do_scan ----
ScanBegin(w) ==
   /\ wpc[w] = "loop" /\ holder = w /\ nextTask = "scan"
   /\ LET p == MinPos(scanQ) IN
      /\ scanQ' = scanQ \ {p} /\ workUnits' = workUnits - 1
      /\ refc' = Pin(p)
      /\ \E skip \in {p, IF Blk(p) = Blk(parserPos) /\ p < parserPos THEN parserPos ELSE p} :
            wloc' = [wloc EXCEPT ![w] = [k |-> "s", p |-> p, start |-> skip]]
   /\ UNCHANGED <<failed, outSlots, inSlots, eof, reqClose, headBlk, tailBlk, freed, retrQ, emitQ, reordQ, orderQ, unord, parseToken, parsingDone, parserPos, nparsed, spc, nread, sinkQ, kpc, written>>
   /\ Unlock([wpc EXCEPT ![w] = "s_scanning"])
ScanEndLock(w) == Relock(w, "s_scanning", "s_end")
ScanEnd(w) ==
   /\ wpc[w] = "s_end" /\ holder = w
   /\ LET p == wloc[w].p
          k == Blk(p)
          hits == {b \in ScanBases : b >= wloc[w].start + 1 /\ b <= BlkEnd(k)}
          found == hits # {}
          b == MinPos(hits)
          rc == [refc EXCEPT ![k] = @ - 1]
      IN
      /\ refc' = rc
      /\ IF ~found \/ parsingDone THEN
            /\ NoAdvance(rc, retrQ, scanQ, workUnits + 1) /\ unord' = unord
         ELSE
            LET requeue == b < BlkEnd(k) /\ b >= headOffs
                sq == IF requeue THEN scanQ \cup {b} ELSE scanQ
            IN IF b <= parserPos
               THEN /\ NoAdvance(rc, retrQ, sq, workUnits + 1) /\ unord' = unord
               ELSE /\ NoAdvance(rc, retrQ \cup {[base |-> b, cur |-> b, link |-> b]}, sq, workUnits)
                    /\ unord' = unord \cup {[base |-> b, endPos |-> b, complete |-> FALSE, legit |-> FALSE, inQ |-> TRUE]}
   /\ wloc' = [wloc EXCEPT ![w] = None]
   /\ UNCHANGED <<failed, outSlots, eof, reqClose, tailBlk, emitQ, reordQ, orderQ, parseToken, parsingDone, nparsed, spc, nread, sinkQ, kpc, written>>
   /\ Return(w)

---------------------------------------------------------------------------
\* source thread
SrcTake == /\ ~failed /\ spc = "take" /\ (inSlots > 0 \/ reqClose)
           /\ IF reqClose THEN spc' = "eof" /\ inSlots' = inSlots
              ELSE /\ inSlots' = inSlots - 1 /\ spc' = (IF nread < NB THEN "avail" ELSE "empty")
           /\ UNCHANGED <<holder, wpc, wloc, nextTask, waiting, failed, workUnits, outSlots, eof, reqClose, headBlk, tailBlk, refc, freed, scanQ, retrQ, emitQ, reordQ, orderQ, unord, parseToken, parsingDone, parserPos, nparsed, nread, sinkQ, kpc, written>>
SrcEmpty == /\ ~failed /\ spc = "empty" /\ inSlots' = inSlots + 1 /\ spc' = "eof"
           /\ UNCHANGED <<holder, wpc, wloc, nextTask, waiting, failed, workUnits, outSlots, eof, reqClose, headBlk, tailBlk, refc, freed, scanQ, retrQ, emitQ, reordQ, orderQ, unord, parseToken, parsingDone, parserPos, nparsed, nread, sinkQ, kpc, written>>
SrcLock(from, to) == /\ ~failed /\ spc = from /\ holder = 0 /\ holder' = SRC /\ spc' = to
           /\ UNCHANGED <<wpc, wloc, nextTask, waiting, failed, workUnits, outSlots, inSlots, eof, reqClose, headBlk, tailBlk, refc, freed, scanQ, retrQ, emitQ, reordQ, orderQ, unord, parseToken, parsingDone, parserPos, nparsed, nread, sinkQ, kpc, written>>
SrcAvail ==
           /\ spc = "avail_l" /\ holder = SRC
           /\ nread' = nread + 1
           /\ spc' = (IF nread' < NB \/ Exact THEN "take" ELSE "eof")
           /\ IF parsingDone
              THEN /\ inSlots' = inSlots + 1 /\ UNCHANGED <<tailBlk, scanQ>>
              ELSE /\ tailBlk' = tailBlk + 1 /\ scanQ' = scanQ \cup {tailBlk * G} /\ inSlots' = inSlots
           /\ UNCHANGED <<wloc, failed, workUnits, outSlots, eof, reqClose, headBlk, refc, freed, retrQ, emitQ, reordQ, orderQ, unord, parseToken, parsingDone, parserPos, nparsed, sinkQ, kpc, written>>
           /\ Unlock(wpc)
SrcEof == /\ spc = "eof_l" /\ holder = SRC /\ eof' = TRUE /\ spc' = "done"
           /\ UNCHANGED <<wloc, failed, workUnits, outSlots, inSlots, reqClose, headBlk, tailBlk, refc, freed, scanQ, retrQ, emitQ, reordQ, orderQ, unord, parseToken, parsingDone, parserPos, nparsed, nread, sinkQ, kpc, written>>
           /\ Unlock(wpc)

\* sink thread
SinkPop == /\ ~failed /\ kpc = "idle" /\ sinkQ # <<>> /\ written' = Append(written, Head(sinkQ)) /\ sinkQ' = Tail(sinkQ) /\ kpc' = "written"
           /\ UNCHANGED <<holder, wpc, wloc, nextTask, waiting, failed, workUnits, outSlots, inSlots, eof, reqClose, headBlk, tailBlk, refc, freed, scanQ, retrQ, emitQ, reordQ, orderQ, unord, parseToken, parsingDone, parserPos, nparsed, spc, nread>>
SinkLock == /\ ~failed /\ kpc = "written" /\ holder = 0 /\ holder' = SNK /\ kpc' = "written_l"
           /\ UNCHANGED <<wpc, wloc, nextTask, waiting, failed, workUnits, outSlots, inSlots, eof, reqClose, headBlk, tailBlk, refc, freed, scanQ, retrQ, emitQ, reordQ, orderQ, unord, parseToken, parsingDone, parserPos, nparsed, spc, nread, sinkQ, written>>
SinkWritten == /\ kpc = "written_l" /\ holder = SNK /\ outSlots' = outSlots + 1 /\ kpc' = "idle"
           /\ UNCHANGED <<wloc, failed, workUnits, inSlots, eof, reqClose, headBlk, tailBlk, refc, freed, scanQ, retrQ, emitQ, reordQ, orderQ, unord, parseToken, parsingDone, parserPos, nparsed, spc, nread, sinkQ, written>>
           /\ Unlock(wpc)

WorkerNext(w) == \/ WLock(w) \/ WIdle(w)
   \/ ParseBegin(w) \/ ParseEndLock(w) \/ ParseEnd(w)
   \/ RetrBegin(w) \/ RetrEndLock(w) \/ RetrEnd(w) \/ RetrPushLock(w) \/ RetrPush(w)
   \/ EmitBegin(w) \/ EmitEndLock(w) \/ EmitEnd(w) \/ Reorder(w)
   \/ ScanBegin(w) \/ ScanEndLock(w) \/ ScanEnd(w)
Next == (\E w \in Workers : WorkerNext(w)) \/ SrcTake \/ SrcEmpty \/ SrcLock("avail", "avail_l") \/ SrcAvail \/ SrcLock("eof", "eof_l") \/ SrcEof
        \/ SinkPop \/ SinkLock \/ SinkWritten
Spec == Init /\ [][Next]_vars
FairSpec == Spec /\ WF_vars(Next)

---------------------------------------------------------------------------
AllDone == \A w \in Workers : wpc[w] = "done"
\* sequential decoding: the buffers of the true blocks, in order, up to the first failure
SeqOut == LET F[i \in 0..Len(TB)] == IF i = 0 THEN <<>>
             ELSE IF \E j \in 1..(i-1) : ~TB[j].ok THEN F[i-1]
             ELSE F[i-1] \o [m \in 1..(IF TB[i].ok THEN TB[i].outs ELSE 0) |-> <<TB[i].base, m-1>>]
          IN F[Len(TB)]
SeqFails == (\E j \in 1..Len(TB) : ~TB[j].ok) \/ ~Fin.ok
Out == written \o sinkQ
IsPrefix(a, b) == Len(a) <= Len(b) /\ \A i \in 1..Len(a) : a[i] = b[i]

TypeOK == /\ workUnits \in 0..W /\ outSlots \in 0..TotOut /\ inSlots \in 0..TotIn
Capacity == /\ Cardinality(scanQ) <= TotIn /\ (tailBlk - headBlk) <= TotIn
            /\ Cardinality(retrQ) <= W /\ Cardinality(emitQ) <= W
            /\ Cardinality(UnordQ) <= (IF W + TotOut > 3 THEN W + TotOut - 3 ELSE 0)
            /\ Len(orderQ) <= W + TotOut /\ Cardinality(reordQ) <= TotOut /\ Len(sinkQ) <= TotOut
NextTaskFresh == (holder = 0 /\ ~failed) => nextTask = Select
OutputIsSequential == IsPrefix(Out, SeqOut)                         \* C10: only sequentially confirmed buffers, in order
FailsOnlyIfSeqFails == failed => SeqFails
Termination == AllDone => /\ ~SeqFails /\ Out = SeqOut /\ sinkQ = sinkQ
                          /\ scanQ = {} /\ retrQ = {} /\ emitQ = {} /\ reordQ = {} /\ orderQ = <<>> /\ UnordQ = {}
                          /\ headBlk = tailBlk /\ parseToken /\ parsingDone
AttachOK == (\A r \in retrQ : r.cur >= headOffs) /\ (\A p \in scanQ : p >= headOffs)
NoDeadlock == failed \/ (AllDone /\ sinkQ = <<>> /\ kpc = "idle") \/ ENABLED Next
Live == <>(AllDone \/ failed)
SuccessLive == (~SeqFails) => <>AllDone
=============================================================================
