---- MODULE S2_garbage ----
EXTENDS Expand
MCTB == << [base |-> 1, end |-> 3, outs |-> 1, ok |-> TRUE, scan |-> TRUE], [base |-> 4, end |-> 6, outs |-> 1, ok |-> TRUE, scan |-> TRUE] >>
MCFin == [pos |-> 7, ok |-> TRUE]
MCCands == { [base |-> 9, end |-> 11, outs |-> 1, ok |-> TRUE], [base |-> 5, end |-> 6, outs |-> 1, ok |-> FALSE] }
====
