SPECIFICATION Spec
CONSTANTS W = 3
 TotIn = 5
 TotOut = 3
 G = 3
 T = 14
 TB <- MCTB
 Fin <- MCFin
 Cands <- MCCands
 Ultra = FALSE
INVARIANTS AttachOK TypeOK Capacity NextTaskFresh OutputIsSequential FailsOnlyIfSeqFails Termination NoDeadlock
CHECK_DEADLOCK FALSE
