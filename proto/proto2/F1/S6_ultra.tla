---- MODULE S6_ultra ----
EXTENDS Expand
MCTB == << [base |-> 1, end |-> 4, outs |-> 1, ok |-> TRUE, scan |-> TRUE], [base |-> 5, end |-> 8, outs |-> 2, ok |-> TRUE, scan |-> TRUE] >>
MCFin == [pos |-> 9, ok |-> TRUE]
MCCands == { [base |-> 3, end |-> 4, outs |-> 1, ok |-> TRUE] }
====
