SPECIFICATION FairSpec
CONSTANTS W = 2
 TotIn = 2
 TotOut = 3
 G = 3
 T = 9
 TB <- MCTB
 Fin <- MCFin
 Cands <- MCCands
 Ultra = FALSE
INVARIANTS AttachOK TypeOK Capacity NextTaskFresh OutputIsSequential FailsOnlyIfSeqFails Termination NoDeadlock
PROPERTY Live
CHECK_DEADLOCK FALSE
