---- MODULE S4_finerr ----
EXTENDS Expand
MCTB == << [base |-> 1, end |-> 4, outs |-> 2, ok |-> TRUE, scan |-> TRUE], [base |-> 5, end |-> 8, outs |-> 1, ok |-> TRUE, scan |-> FALSE] >>
MCFin == [pos |-> 9, ok |-> FALSE]
MCCands == { [base |-> 7, end |-> 8, outs |-> 1, ok |-> TRUE] }
====
