SPECIFICATION FairSpec
CONSTANTS W = 3
 TotIn = 3
 TotOut = 4
 G = 3
 T = 12
 TB <- MCTB
 Fin <- MCFin
 Cands <- MCCands
 Ultra = FALSE
INVARIANTS AttachOK TypeOK Capacity NextTaskFresh OutputIsSequential FailsOnlyIfSeqFails Termination NoDeadlock
PROPERTY Live
CHECK_DEADLOCK FALSE
