---- MODULE MC ----
EXTENDS Compress
MCSizes == <<3, 2, 1, 3>>
====
