---- MODULE S8_w3 ----
EXTENDS Expand
MCTB == << [base |-> 1, end |-> 2, outs |-> 1, ok |-> TRUE, scan |-> TRUE], [base |-> 3, end |-> 8, outs |-> 3, ok |-> TRUE, scan |-> FALSE], [base |-> 9, end |-> 11, outs |-> 2, ok |-> TRUE, scan |-> TRUE] >>
MCFin == [pos |-> 12, ok |-> TRUE]
MCCands == { [base |-> 5, end |-> 6, outs |-> 1, ok |-> TRUE], [base |-> 7, end |-> 10, outs |-> 1, ok |-> FALSE] }
====
