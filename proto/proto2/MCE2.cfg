SPECIFICATION Spec
CONSTANTS W = 3
 TotIn = 4
 TotOut = 3
 G = 3
 T = 12
 TB <- MCTB
 Fin <- MCFin
 Cands <- MCCands
 Ultra = FALSE
INVARIANTS TypeOK Capacity NextTaskFresh OutputIsSequential FailsOnlyIfSeqFails Termination NoDeadlock
CHECK_DEADLOCK FALSE
