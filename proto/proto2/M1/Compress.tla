---------------------------- MODULE Compress ----------------------------
EXTENDS Naturals, Sequences, FiniteSets, TLC

CONSTANTS W, Sizes, Cap, Exact, Ultra, TotIn, TotOut

Workers == 1..W
THRESH == 2
NChunks == Len(Sizes)
None == [k |-> "none"]

VARIABLES holder, wpc, wloc, nextTask, waiting,
          workUnits, outSlots, inSlots, eof,
          collQ, transQ, reordQ, order, nextId, collectToken, unfinished,
          spc, sinkQ, kpc, written

schedv == <<workUnits, outSlots, eof, collQ, transQ, reordQ, order, nextId, collectToken, unfinished>>
vars == <<holder, wpc, wloc, nextTask, waiting, workUnits, outSlots, inSlots, eof,
          collQ, transQ, reordQ, order, nextId, collectToken, unfinished,
          spc, sinkQ, kpc, written>>

PosLt(a,b) == a[1] < b[1] \/ (a[1] = b[1] /\ a[2] < b[2])
MinBy(S) == CHOOSE x \in S : \A y \in S : ~PosLt(y.pos, x.pos)

CanCollectSeq == Ultra /\ collectToken /\ (collQ # {} \/ (eof /\ unfinished # None))
                 /\ (workUnits > 0 \/ unfinished # None)
CanReorder == reordQ # {} /\ MinBy(reordQ).pos = order
CanTransmit == transQ # {} /\ outSlots > THRESH
CanCollect == ~Ultra /\ collQ # {} /\ workUnits > 0
Select == IF CanCollectSeq THEN "collect_seq" ELSE IF CanReorder THEN "reorder"
          ELSE IF CanTransmit THEN "transmit" ELSE IF CanCollect THEN "collect" ELSE "null"
Finished == eof /\ collQ = {} /\ workUnits = W /\ outSlots = TotOut

\* sched_unlock(): select_task, signal one waiter if task or finished, release.
\* base = wpc with the caller's own update already applied.
Unlock(base) ==
  /\ nextTask' = Select'
  /\ holder' = 0
  /\ IF (nextTask' # "null" \/ Finished') /\ waiting # {}
     THEN \E x \in waiting : waiting' = waiting \ {x} /\ wpc' = [base EXCEPT ![x] = "woken"]
     ELSE waiting' = waiting /\ wpc' = base

Init == /\ holder = 0 /\ wpc = [w \in Workers |-> "start"] /\ wloc = [w \in Workers |-> None]
        /\ nextTask = "null" /\ waiting = {}
        /\ workUnits = W /\ outSlots = TotOut /\ inSlots = TotIn /\ eof = FALSE
        /\ collQ = {} /\ transQ = {} /\ reordQ = {} /\ order = <<0,0>> /\ nextId = 0
        /\ collectToken = TRUE /\ unfinished = None
        /\ spc = "take" /\ sinkQ = <<>> /\ kpc = "idle" /\ written = <<>>

---------------------------------------------------------------------------
WLock(w) == /\ wpc[w] \in {"start", "woken"} /\ holder = 0
            /\ holder' = w /\ wpc' = [wpc EXCEPT ![w] = "loop"]
            /\ UNCHANGED <<wloc, nextTask, waiting, inSlots, spc, sinkQ, kpc, written>> /\ UNCHANGED schedv

\* generic re-lock in the middle of a task
Relock(w, from, to) == /\ wpc[w] = from /\ holder = 0
            /\ holder' = w /\ wpc' = [wpc EXCEPT ![w] = to]
            /\ UNCHANGED <<wloc, nextTask, waiting, inSlots, spc, sinkQ, kpc, written>> /\ UNCHANGED schedv

WIdle(w) == /\ wpc[w] = "loop" /\ holder = w /\ nextTask = "null"
            /\ IF Finished
               THEN /\ wpc' = [x \in Workers |-> IF x = w THEN "done" ELSE IF x \in waiting THEN "woken" ELSE wpc[x]]
                    /\ waiting' = {}
               ELSE /\ wpc' = [wpc EXCEPT ![w] = "wait"] /\ waiting' = waiting \cup {w}
            /\ holder' = 0
            /\ UNCHANGED <<wloc, nextTask, inSlots, spc, sinkQ, kpc, written>> /\ UNCHANGED schedv

Take(ib, room) == IF ib.left <= room THEN ib.left ELSE room

\* ---- do_collect ----
CollectBegin(w) ==
   /\ wpc[w] = "loop" /\ holder = w /\ nextTask = "collect"
   /\ LET ib == MinBy(collQ)
          t == Take(ib, Cap)
          rest == ib.left - t
          wb == [pos |-> ib.pos,
                 next |-> IF rest > 0 THEN <<ib.pos[1], ib.pos[2]+1>> ELSE <<ib.pos[1]+1, 0>>,
                 data |-> << <<ib.pos[1], ib.off, t>> >>]
          ib2 == [ib EXCEPT !.left = rest, !.off = ib.off + t, !.pos = <<ib.pos[1], ib.pos[2]+1>>]
      IN /\ collQ' = collQ \ {ib} /\ workUnits' = workUnits - 1
         /\ wloc' = [wloc EXCEPT ![w] = [k |-> "c", wb |-> wb, ib |-> ib2]]
   /\ UNCHANGED <<outSlots, eof, transQ, reordQ, order, nextId, collectToken, unfinished, inSlots, spc, sinkQ, kpc, written>>
   /\ Unlock([wpc EXCEPT ![w] = "c_collected"])

\* after collect(): either requeue the input block (needs lock) or release it (source mutex)
CollectRequeueLock(w) == wpc[w] = "c_collected" /\ wloc[w].k = "c" /\ wloc[w].ib.left > 0 /\ Relock(w, "c_collected", "c_requeue")
CollectRequeue(w) ==
   /\ wpc[w] = "c_requeue" /\ holder = w
   /\ collQ' = collQ \cup {wloc[w].ib}
   /\ wloc' = [wloc EXCEPT ![w] = [k |-> "c", wb |-> wloc[w].wb, ib |-> None]]
   /\ UNCHANGED <<workUnits, outSlots, eof, transQ, reordQ, order, nextId, collectToken, unfinished, inSlots, spc, sinkQ, kpc, written>>
   /\ Unlock([wpc EXCEPT ![w] = "c_encoding"])
CollectRelease(w) ==
   /\ wpc[w] = "c_collected" /\ wloc[w].k = "c" /\ wloc[w].ib.left = 0
   /\ inSlots' = inSlots + 1
   /\ wloc' = [wloc EXCEPT ![w] = [k |-> "c", wb |-> wloc[w].wb, ib |-> None]]
   /\ wpc' = [wpc EXCEPT ![w] = "c_encoding"]
   /\ UNCHANGED <<holder, nextTask, waiting, spc, sinkQ, kpc, written>> /\ UNCHANGED schedv
CollectEndLock(w) == Relock(w, "c_encoding", "c_end")
CollectEnd(w) ==
   /\ wpc[w] = "c_end" /\ holder = w
   /\ transQ' = transQ \cup {wloc[w].wb}
   /\ wloc' = [wloc EXCEPT ![w] = None]
   /\ wpc' = [wpc EXCEPT ![w] = "loop"]
   /\ UNCHANGED <<holder, waiting, workUnits, outSlots, eof, collQ, reordQ, order, nextId, collectToken, unfinished, inSlots, spc, sinkQ, kpc, written>>
   /\ nextTask' = Select'

\* ---- do_collect_seq ----
SeqBegin(w) ==
   /\ wpc[w] = "loop" /\ holder = w /\ nextTask = "collect_seq"
   /\ LET fresh == unfinished = None
          hasIb == collQ # {}
          ib == MinBy(collQ)
          wb0 == IF fresh THEN [pos |-> ib.pos, next |-> ib.pos, data |-> <<>>, fill |-> 0] ELSE unfinished
          t == IF hasIb THEN Take(ib, Cap - wb0.fill) ELSE 0
          rest == IF hasIb THEN ib.left - t ELSE 0
          done == IF hasIb THEN wb0.fill + t = Cap ELSE TRUE
          wb1 == IF hasIb
                 THEN [wb0 EXCEPT !.fill = wb0.fill + t, !.data = Append(wb0.data, <<ib.pos[1], ib.off, t>>),
                                  !.next = IF rest > 0 THEN <<wb0.next[1], wb0.next[2]+1>> ELSE <<wb0.next[1]+1, 0>>]
                 ELSE wb0
          ib2 == IF hasIb THEN [ib EXCEPT !.left = rest, !.off = ib.off + t, !.pos = <<ib.pos[1], ib.pos[2]+1>>] ELSE None
      IN /\ unfinished' = None
         /\ workUnits' = IF fresh THEN workUnits - 1 ELSE workUnits
         /\ collQ' = IF hasIb THEN collQ \ {ib} ELSE collQ
         /\ collectToken' = FALSE
         /\ wloc' = [wloc EXCEPT ![w] = [k |-> "s", wb |-> wb1, ib |-> ib2, done |-> done]]
   /\ UNCHANGED <<outSlots, eof, transQ, reordQ, order, nextId, inSlots, spc, sinkQ, kpc, written>>
   /\ Unlock([wpc EXCEPT ![w] = "s_collected"])
SeqRequeueLock(w) == wpc[w] = "s_collected" /\ wloc[w].k = "s" /\ wloc[w].ib # None /\ wloc[w].ib.left > 0 /\ Relock(w, "s_collected", "s_requeue")
SeqRequeue(w) ==
   /\ wpc[w] = "s_requeue" /\ holder = w
   /\ collQ' = collQ \cup {wloc[w].ib}
   /\ wloc' = [wloc EXCEPT ![w].ib = None]
   /\ UNCHANGED <<workUnits, outSlots, eof, transQ, reordQ, order, nextId, collectToken, unfinished, inSlots, spc, sinkQ, kpc, written>>
   /\ Unlock([wpc EXCEPT ![w] = "s_token"])
SeqRelease(w) ==
   /\ wpc[w] = "s_collected" /\ wloc[w].k = "s" /\ wloc[w].ib # None /\ wloc[w].ib.left = 0
   /\ inSlots' = inSlots + 1
   /\ wloc' = [wloc EXCEPT ![w].ib = None]
   /\ wpc' = [wpc EXCEPT ![w] = "s_token"]
   /\ UNCHANGED <<holder, nextTask, waiting, spc, sinkQ, kpc, written>> /\ UNCHANGED schedv
SeqNoIb(w) ==
   /\ wpc[w] = "s_collected" /\ wloc[w].k = "s" /\ wloc[w].ib = None
   /\ wpc' = [wpc EXCEPT ![w] = "s_token"]
   /\ UNCHANGED <<wloc, holder, nextTask, waiting, inSlots, spc, sinkQ, kpc, written>> /\ UNCHANGED schedv
SeqTokenLock(w) == Relock(w, "s_token", "s_token_l")
SeqPark(w) ==   \* !done: keep lock, return to loop
   /\ wpc[w] = "s_token_l" /\ holder = w /\ ~wloc[w].done
   /\ collectToken' = TRUE /\ unfinished' = wloc[w].wb
   /\ wloc' = [wloc EXCEPT ![w] = None]
   /\ wpc' = [wpc EXCEPT ![w] = "loop"]
   /\ UNCHANGED <<holder, waiting, workUnits, outSlots, eof, collQ, transQ, reordQ, order, nextId, inSlots, spc, sinkQ, kpc, written>>
   /\ nextTask' = Select'
SeqToken(w) ==
   /\ wpc[w] = "s_token_l" /\ holder = w /\ wloc[w].done
   /\ collectToken' = TRUE
   /\ UNCHANGED <<wloc, workUnits, outSlots, eof, collQ, transQ, reordQ, order, nextId, unfinished, inSlots, spc, sinkQ, kpc, written>>
   /\ Unlock([wpc EXCEPT ![w] = "s_encoding"])
SeqEndLock(w) == Relock(w, "s_encoding", "s_end")
SeqEnd(w) ==
   /\ wpc[w] = "s_end" /\ holder = w
   /\ transQ' = transQ \cup {[pos |-> wloc[w].wb.pos, next |-> wloc[w].wb.next, data |-> wloc[w].wb.data]}
   /\ wloc' = [wloc EXCEPT ![w] = None]
   /\ wpc' = [wpc EXCEPT ![w] = "loop"]
   /\ UNCHANGED <<holder, waiting, workUnits, outSlots, eof, collQ, reordQ, order, nextId, collectToken, unfinished, inSlots, spc, sinkQ, kpc, written>>
   /\ nextTask' = Select'

\* ---- do_transmit ----
TransmitBegin(w) ==
   /\ wpc[w] = "loop" /\ holder = w /\ nextTask = "transmit"
   /\ LET wb == MinBy(transQ) IN
      /\ transQ' = transQ \ {wb} /\ outSlots' = outSlots - 1
      /\ wloc' = [wloc EXCEPT ![w] = [k |-> "t", wb |-> wb]]
   /\ UNCHANGED <<workUnits, eof, collQ, reordQ, order, nextId, collectToken, unfinished, inSlots, spc, sinkQ, kpc, written>>
   /\ Unlock([wpc EXCEPT ![w] = "t_transmitting"])
TransmitEndLock(w) == Relock(w, "t_transmitting", "t_end")
TransmitEnd(w) ==
   /\ wpc[w] = "t_end" /\ holder = w
   /\ workUnits' = workUnits + 1
   /\ reordQ' = reordQ \cup {wloc[w].wb}
   /\ wloc' = [wloc EXCEPT ![w] = None]
   /\ wpc' = [wpc EXCEPT ![w] = "loop"]
   /\ UNCHANGED <<holder, waiting, outSlots, eof, collQ, transQ, order, nextId, collectToken, unfinished, inSlots, spc, sinkQ, kpc, written>>
   /\ nextTask' = Select'

\* ---- do_reorder (entirely under the lock) ----
Reorder(w) ==
   /\ wpc[w] = "loop" /\ holder = w /\ nextTask = "reorder"
   /\ LET wb == MinBy(reordQ) IN
      /\ reordQ' = reordQ \ {wb} /\ order' = wb.next
      /\ sinkQ' = Append(sinkQ, wb)
   /\ UNCHANGED <<holder, wpc, wloc, waiting, workUnits, outSlots, eof, collQ, transQ, nextId, collectToken, unfinished, inSlots, spc, kpc, written>>
   /\ nextTask' = Select'

---------------------------------------------------------------------------
\* source thread
SrcTake == /\ spc = "take" /\ inSlots > 0 /\ inSlots' = inSlots - 1
           /\ spc' = (IF nextId < NChunks THEN "avail" ELSE "empty")
           /\ UNCHANGED <<holder, wpc, wloc, nextTask, waiting, sinkQ, kpc, written>> /\ UNCHANGED schedv
SrcEmpty == /\ spc = "empty" /\ inSlots' = inSlots + 1 /\ spc' = "eof"
           /\ UNCHANGED <<holder, wpc, wloc, nextTask, waiting, sinkQ, kpc, written>> /\ UNCHANGED schedv
SrcAvailLock == /\ spc = "avail" /\ holder = 0 /\ holder' = W+1 /\ spc' = "avail_l"
           /\ UNCHANGED <<wpc, wloc, nextTask, waiting, inSlots, sinkQ, kpc, written>> /\ UNCHANGED schedv
SrcAvail == /\ spc = "avail_l" /\ holder = W+1
           /\ collQ' = collQ \cup {[pos |-> <<nextId, 0>>, left |-> Sizes[nextId+1], off |-> 0]}
           /\ nextId' = nextId + 1
           /\ spc' = (IF nextId' < NChunks \/ Exact THEN "take" ELSE "eof")
           /\ UNCHANGED <<wloc, workUnits, outSlots, eof, transQ, reordQ, order, collectToken, unfinished, inSlots, sinkQ, kpc, written>>
           /\ Unlock(wpc)
SrcEofLock == /\ spc = "eof" /\ holder = 0 /\ holder' = W+1 /\ spc' = "eof_l"
           /\ UNCHANGED <<wpc, wloc, nextTask, waiting, inSlots, sinkQ, kpc, written>> /\ UNCHANGED schedv
SrcEof == /\ spc = "eof_l" /\ holder = W+1 /\ eof' = TRUE /\ spc' = "done"
           /\ UNCHANGED <<wloc, workUnits, outSlots, collQ, transQ, reordQ, order, nextId, collectToken, unfinished, inSlots, sinkQ, kpc, written>>
           /\ Unlock(wpc)

\* sink thread
SinkPop == /\ kpc = "idle" /\ sinkQ # <<>> /\ written' = Append(written, Head(sinkQ)) /\ sinkQ' = Tail(sinkQ) /\ kpc' = "written"
           /\ UNCHANGED <<holder, wpc, wloc, nextTask, waiting, inSlots, spc>> /\ UNCHANGED schedv
SinkLock == /\ kpc = "written" /\ holder = 0 /\ holder' = W+2 /\ kpc' = "written_l"
           /\ UNCHANGED <<wpc, wloc, nextTask, waiting, inSlots, spc, sinkQ, written>> /\ UNCHANGED schedv
SinkWritten == /\ kpc = "written_l" /\ holder = W+2 /\ outSlots' = outSlots + 1 /\ kpc' = "idle"
           /\ UNCHANGED <<wloc, workUnits, eof, collQ, transQ, reordQ, order, nextId, collectToken, unfinished, inSlots, spc, sinkQ, written>>
           /\ Unlock(wpc)

WorkerNext(w) == \/ WLock(w) \/ WIdle(w)
   \/ CollectBegin(w) \/ CollectRequeueLock(w) \/ CollectRequeue(w) \/ CollectRelease(w) \/ CollectEndLock(w) \/ CollectEnd(w)
   \/ SeqBegin(w) \/ SeqRequeueLock(w) \/ SeqRequeue(w) \/ SeqRelease(w) \/ SeqNoIb(w) \/ SeqTokenLock(w) \/ SeqPark(w) \/ SeqToken(w) \/ SeqEndLock(w) \/ SeqEnd(w)
   \/ TransmitBegin(w) \/ TransmitEndLock(w) \/ TransmitEnd(w) \/ Reorder(w)
Next == (\E w \in Workers : WorkerNext(w)) \/ SrcTake \/ SrcEmpty \/ SrcAvailLock \/ SrcAvail \/ SrcEofLock \/ SrcEof
        \/ SinkPop \/ SinkLock \/ SinkWritten
Spec == Init /\ [][Next]_vars
FairSpec == Spec /\ WF_vars(Next)

---------------------------------------------------------------------------
AllDone == \A w \in Workers : wpc[w] = "done"
\* the expected output: blocks in positional order
Flat(seq) == LET F[i \in 0..Len(seq)] == IF i = 0 THEN <<>> ELSE F[i-1] \o seq[i].data IN F[Len(seq)]
\* merge adjacent segments of the same chunk and check they tile the input
Covers(d) == /\ \A i \in 1..Len(d)-1 : \/ (d[i][1] = d[i+1][1] /\ d[i][2] + d[i][3] = d[i+1][2])
                                        \/ (d[i+1][1] = d[i][1] + 1 /\ d[i+1][2] = 0 /\ d[i][2] + d[i][3] = Sizes[d[i][1]+1])
             /\ (Len(d) > 0 => d[1][1] = 0 /\ d[1][2] = 0)
Complete(d) == IF NChunks = 0 THEN d = <<>> ELSE Len(d) > 0 /\ d[Len(d)][1] = NChunks - 1 /\ d[Len(d)][2] + d[Len(d)][3] = Sizes[NChunks]

TypeOK == /\ workUnits \in 0..W /\ outSlots \in 0..TotOut /\ inSlots \in 0..TotIn
Capacity == /\ Cardinality(collQ) <= TotIn /\ Cardinality(transQ) <= W /\ Cardinality(reordQ) <= TotOut
            /\ Len(sinkQ) <= TotOut
NextTaskFresh == holder = 0 => nextTask = Select
OrderedOutput == Covers(Flat(written \o sinkQ))
Termination == AllDone => /\ Complete(Flat(written \o sinkQ)) /\ collectToken /\ unfinished = None
                          /\ collQ = {} /\ transQ = {} /\ reordQ = {} /\ inSlots = TotIn
NoStuck == (\A w \in Workers : wpc[w] \in {"wait","done"}) /\ spc = "done" /\ sinkQ = <<>> /\ kpc = "idle" => AllDone
NoDeadlock == (AllDone /\ sinkQ = <<>> /\ kpc = "idle") \/ ENABLED Next
Live == <>AllDone
=============================================================================
