SPECIFICATION FairSpec
CONSTANTS W = 2
 Sizes <- MCSizes
 Cap = 2
 Exact = TRUE
 Ultra = FALSE
 TotIn = 2
 TotOut = 3
INVARIANTS TypeOK Capacity NextTaskFresh OrderedOutput Termination NoDeadlock
PROPERTY Live
CHECK_DEADLOCK FALSE
