---- MODULE MCE3 ----
EXTENDS Expand
MCTB == << [base |-> 1, end |-> 2, outs |-> 1, ok |-> TRUE, scan |-> TRUE],
           [base |-> 3, end |-> 8, outs |-> 1, ok |-> TRUE, scan |-> TRUE],
           [base |-> 9, end |-> 10, outs |-> 1, ok |-> TRUE, scan |-> TRUE],
           [base |-> 11, end |-> 13, outs |-> 2, ok |-> TRUE, scan |-> TRUE] >>
MCFin == [pos |-> 14, ok |-> TRUE]
MCCands == { [base |-> 5, end |-> 6, outs |-> 1, ok |-> FALSE] }
====
