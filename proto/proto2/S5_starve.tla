---- MODULE S5_starve ----
EXTENDS Expand
MCTB == << [base |-> 1, end |-> 9, outs |-> 2, ok |-> TRUE, scan |-> TRUE], [base |-> 10, end |-> 11, outs |-> 1, ok |-> TRUE, scan |-> TRUE] >>
MCFin == [pos |-> 12, ok |-> TRUE]
MCCands == { [base |-> 3, end |-> 11, outs |-> 1, ok |-> TRUE], [base |-> 5, end |-> 6, outs |-> 2, ok |-> TRUE] }
====
