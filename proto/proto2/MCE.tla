---- MODULE MCE ----
EXTENDS Expand
\* two true blocks, one spurious candidate inside block 1's payload
MCTB == << [base |-> 1, end |-> 4, outs |-> 2, ok |-> TRUE, scan |-> TRUE],
           [base |-> 5, end |-> 7, outs |-> 1, ok |-> TRUE, scan |-> TRUE] >>
MCFin == [pos |-> 8, ok |-> TRUE]
MCCands == { [base |-> 3, end |-> 6, outs |-> 1, ok |-> TRUE] }
====
