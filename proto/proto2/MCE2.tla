---- MODULE MCE2 ----
EXTENDS Expand
MCTB == << [base |-> 1, end |-> 2, outs |-> 1, ok |-> TRUE, scan |-> TRUE],
           [base |-> 6, end |-> 8, outs |-> 1, ok |-> TRUE, scan |-> TRUE],
           [base |-> 9, end |-> 11, outs |-> 2, ok |-> TRUE, scan |-> TRUE] >>
MCFin == [pos |-> 12, ok |-> TRUE]
MCCands == { [base |-> 4, end |-> 5, outs |-> 1, ok |-> TRUE] }
====
