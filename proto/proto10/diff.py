import subprocess, random, sys, hashlib
sys.path.insert(0,'/tmp/proto10')
import bzi
L='/repo/_build/lbzip2'
random.seed(int(sys.argv[1]) if len(sys.argv)>1 else 1)
def mk(data,lvl='-1'):
    return subprocess.run([L,lvl,'-n','2'],input=data,capture_output=True).stdout
srcs=[mk(b'hello world '*20), mk(bytes(random.randrange(97,101) for _ in range(3000))), mk(b'a'*1000+b'b'*300+bytes(range(256))*3), mk(b''), mk(bytes(random.randrange(256) for _ in range(500)))+mk(b'second stream '*30,'-5')]
n=int(sys.argv[2]) if len(sys.argv)>2 else 3000
stats={'both_ok':0,'both_bad':0,'lbz_only_ok':0,'ref_only_ok':0,'diff_out':0}
examples=[]
for it in range(n):
    z=bytearray(random.choice(srcs))
    kind=random.random()
    if kind<0.6 and len(z)>0:
        for _ in range(random.choice([1,1,1,2,3])):
            p=random.randrange(len(z)*8); z[p>>3]^=1<<(7-(p&7))
    elif kind<0.8 and len(z)>1:
        z=z[:random.randrange(len(z))]
    elif kind<0.9:
        z+=bytes(random.randrange(256) for _ in range(random.randrange(1,20)))
    else:
        p=random.randrange(len(z)+1); z[p:p]=bytes(random.randrange(256) for _ in range(random.randrange(1,4)))
    z=bytes(z)
    p=subprocess.run([L,'-d','-n','2'],input=z,capture_output=True,timeout=20)
    lok=(p.returncode==0)
    try:
        st,pl=bzi.inspect(z)
        # strict trailing rule: inspect() stops at first non-'BZh' and requires at least one stream unless empty
        rok=True
        if not st and len(z)>0: rok=False   # no stream at all: not a bzip2 file
    except bzi.Bad as e: rok=False; reason=str(e)
    except EOFError: rok=False; reason='eof'
    if lok and rok:
        if p.stdout==pl: stats['both_ok']+=1
        else: stats['diff_out']+=1; examples.append(('diff_out',z.hex()[:80]))
    elif lok and not rok: stats['lbz_only_ok']+=1; examples.append(('lbz_only_ok',reason,z.hex()))
    elif rok and not lok: stats['ref_only_ok']+=1; examples.append(('ref_only_ok',p.stderr[:60],z.hex()[:120]))
    else: stats['both_bad']+=1
print(stats)
for e in examples:
    if e[0]=="lbz_only_ok": open("/tmp/proto10/lbzonly.hex","w").write(e[2]); print(e[0],e[1],len(e[2])//2)
