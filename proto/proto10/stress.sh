#!/bin/bash
# run N times, print any rc=0
f=$1; n=$2; cnt=$3
for i in $(seq 1 $cnt); do /repo/_build/lbzip2 -d -n $n < $f > /tmp/proto10/o.$$ 2>/dev/null; rc=$?; if [ $rc = 0 ]; then echo "RC0 n=$n size=$(stat -c %s /tmp/proto10/o.$$)"; cp /tmp/proto10/o.$$ /tmp/proto10/rc0.out; fi; done; rm -f /tmp/proto10/o.$$
