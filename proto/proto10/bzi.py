#!/usr/bin/env python3
"""Scratch strict bzip2 inspector (prototype of tools/bzinspect.py)."""
import sys, struct
class BR:
    def __init__(s,d): s.d=d; s.p=0; s.n=len(d)*8
    def get(s,k):
        if s.p+k>s.n: raise EOFError
        v=0
        for _ in range(k):
            v=(v<<1)|((s.d[s.p>>3]>>(7-(s.p&7)))&1); s.p+=1
        return v
def crc_table():
    t=[]
    for i in range(256):
        c=i<<24
        for _ in range(8): c=((c<<1)^0x04C11DB7)&0xFFFFFFFF if c&0x80000000 else (c<<1)&0xFFFFFFFF
        t.append(c)
    return t
CT=crc_table()
def bzcrc(data):
    c=0xFFFFFFFF
    for b in data: c=((c<<8)&0xFFFFFFFF)^CT[(c>>24)^b]
    return c^0xFFFFFFFF
class Bad(Exception): pass
def read_block(r, level):
    info={}
    info['crc']=r.get(32); info['rand']=r.get(1); info['idx']=r.get(24)
    big=r.get(16); used=[]
    for g in range(16):
        if big&(0x8000>>g):
            sm=r.get(16)
            for b in range(16):
                if sm&(0x8000>>b): used.append(16*g+b)
    if not used: raise Bad('empty bitmap')
    alpha=len(used)+2
    nt=r.get(3)
    if not 2<=nt<=6: raise Bad('tables %d'%nt)
    nsel=r.get(15)
    if nsel<1: raise Bad('no selectors')
    info['nsel']=nsel; info['ntables']=nt
    mtf=list(range(nt)); sels=[]
    for _ in range(nsel):
        k=0
        while r.get(1):
            k+=1
            if k>=nt: raise Bad('selector')
        x=mtf.pop(k); mtf.insert(0,x); sels.append(x)
    tables=[]; info['delta_ok']=True
    for t in range(nt):
        L=r.get(5); lens=[]
        for s in range(alpha):
            while True:
                if not 1<=L<=20: raise Bad('delta out of range %d'%L)
                if not r.get(1): break
                L+= -1 if r.get(1) else 1
            lens.append(L)
        tables.append(lens)
    info['tables']=tables
    info['kraft']=[sum(1<<(20-l) for l in lens) for lens in tables]
    # decoding tables
    dec=[]
    for lens in tables:
        d={}; code=0
        for L in range(1,21):
            for s,l in enumerate(lens):
                if l==L: d[(L,code)]=s; code+=1
            code<<=1
        dec.append(d)
    freq=[[0]*alpha for _ in range(nt)]
    eob=alpha-1; tt=bytearray(); mt=list(used); run=0; sh=0; g=0; nsym=0; done=False
    usedsel=min(nsel,18001)
    while not done:
        if g>=usedsel: raise Bad('unterminated')
        t=sels[g]; d=dec[t]; g+=1
        for _ in range(50):
            L=0; code=0
            while True:
                code=(code<<1)|r.get(1); L+=1
                if (L,code) in d: s=d[(L,code)]; break
                if L>20: raise Bad('bad code (incomplete table used)')
            freq[t][s]+=1; nsym+=1
            if s<2: run+=(s+1)<<sh; sh+=1; 
            else:
                if run: tt+=bytes([mt[0]])*run; run=0; sh=0
                if s==eob: done=True; break
                c=mt.pop(s-1); mt.insert(0,c); tt.append(c)
            if len(tt)+run>900000: raise Bad('overflow')
    info['groups_used']=g; info['freq']=freq; info['rle_size']=len(tt); info['used_tables']=sorted(set(sels[:g]))
    if len(tt)==0: raise Bad('empty block')
    if info['idx']>=len(tt): raise Bad('idx')
    if len(tt)>level*100000: raise Bad('block overflow for level')
    # IBWT + unRLE
    n=len(tt); cnt=[0]*256
    for b in tt: cnt[b]+=1
    cf=[0]*256; a=0
    for i in range(256): cf[i]=a; a+=cnt[i]
    nxt=[0]*n
    for i,b in enumerate(tt): nxt[cf[b]]=i; cf[b]+=1
    out=bytearray(); p=nxt[info['idx']]; data=bytearray()
    for _ in range(n): data.append(tt[p]); p=nxt[p]
    if info['rand']: raise Bad('rand unsupported in prototype')
    i=0
    while i<n:
        b=data[i]; out.append(b); i+=1; k=1
        while i<n and data[i]==b and k<4: out.append(b); i+=1; k+=1
        if k==4:
            if i>=n: raise Bad('missing run length')
            out+=bytes([b])*data[i]; i+=1
    info['plain_len']=len(out); info['crc_ok']=(bzcrc(out)==info['crc'])
    return info,bytes(out)
def inspect(d):
    r=BR(d); streams=[]; plain=bytearray()
    while True:
        try:
            if r.get(24)!=0x425A68: break
        except EOFError: break
        lv=r.get(8)-0x30
        if not 1<=lv<=9: raise Bad('level')
        blocks=[]; comb=0
        while True:
            m=r.get(48)
            if m==0x314159265359:
                info,out=read_block(r,lv); blocks.append(info); plain+=out
                if not info['crc_ok']: raise Bad('block crc')
                comb=(((comb<<1)|(comb>>31))&0xFFFFFFFF)^info['crc']
            elif m==0x177245385090:
                sc=r.get(32)
                if sc!=comb: raise Bad('stream crc')
                r.p=(r.p+7)&~7; break
            else: raise Bad('block magic')
        streams.append({'level':lv,'blocks':blocks})
    return streams,bytes(plain)
def pm_cost(freq,L):
    leaves=sorted(freq); n=len(leaves)
    cur=list(leaves)
    for _ in range(L-1):
        pk=[cur[i]+cur[i+1] for i in range(0,len(cur)-1,2)]
        cur=sorted(leaves+pk)
    return sum(cur[:2*n-2])
if __name__=='__main__':
    d=open(sys.argv[1],'rb').read(); st,pl=inspect(d)
    for s in st:
        print('level',s['level'],'blocks',len(s['blocks']))
        for b in s['blocks']:
            opt=[]
            for t in b['used_tables']:
                lens=b['tables'][t]; f=b['freq'][t]; cost=sum(x*y for x,y in zip(lens,f)); o=pm_cost(f,max(lens)); opt.append((t,cost,o,max(lens)))
            print(' rle',b['rle_size'],'plain',b['plain_len'],'nsel',b['nsel'],'groups',b['groups_used'],'nt',b['ntables'],'kraft_ok',[k==1<<20 for k in b['kraft']],'rand',b['rand'],'opt',opt)
