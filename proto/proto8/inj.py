import subprocess, os, shutil, sys, hashlib
L='/repo/_build/lbzip2'
data=os.urandom(250000)
import bz2
def setup(d, mode):
    shutil.rmtree(d, ignore_errors=True); os.makedirs(d)
    if mode=='c':
        open(d+'/f','wb').write(data); return 'f','f.bz2'
    else:
        z=subprocess.run([L,'-1','-n','2'],input=data,capture_output=True).stdout
        open(d+'/f.bz2','wb').write(z); return 'f.bz2','f'
def run(mode, keep, inject):
    d='/tmp/proto8/w'
    inp,outp=setup(d,mode)
    orig=open(d+'/'+inp,'rb').read()
    args=[L,'-n','2']+(['-d'] if mode=='d' else ['-1'])+(['-k'] if keep else [])+[inp]
    cmd=['strace','-f','-qq','-o','/dev/null']+(['-e','trace='+inject.split(':')[0],'-e','inject='+inject] if inject else ['-e','trace=none'])+args
    try:
        p=subprocess.run(cmd,cwd=d,capture_output=True,timeout=20)
        rc=p.returncode
    except subprocess.TimeoutExpired:
        return 'HANG'
    ein=os.path.exists(d+'/'+inp); eout=os.path.exists(d+'/'+outp)
    in_ok = ein and open(d+'/'+inp,'rb').read()==orig
    exp = bz2.decompress(orig) if mode=='d' else None
    if eout:
        o=open(d+'/'+outp,'rb').read()
        out_ok = (o==exp) if mode=='d' else (bz2.decompress(o)==orig if len(o)>14 or True else False)
    else: out_ok=False
    return rc, 'in' if in_ok else ('in?' if ein else '-'), 'out' if (eout and out_ok) else ('out?' if eout else '-'), p.stderr.decode()[:70].strip()
def safe(f,*a):
    try: return f(*a)
    except Exception as e: return ('EXC',str(e)[:60])
res={}
for mode in 'cd':
  for keep in (False,True):
    print('== mode',mode,'keep',keep,'baseline',safe(run,mode,keep,None))
    for sc,errs in [('write',['ENOSPC','EIO']),('read',['EIO']),('close',['EIO']),('fchmod',['EPERM']),('fchown',['EPERM']),('utimensat',['EPERM']),('unlink',['EPERM']),('openat',['EACCES'])]:
      for when in range(1,8):
        for err in errs[:1]:
            r=safe(run,mode,keep,'%s:error=%s:when=%d'%(sc,err,when))
            print(mode,keep,sc,err,when,r)
    for sig in ('SIGINT','SIGTERM','SIGKILL'):
      for sc in ('write','read','close','fchmod','unlink','rt_sigsuspend','openat'):
        for when in (1,2,3):
            r=safe(run,mode,keep,'%s:signal=%s:when=%d'%(sc,sig,when))
            print(mode,keep,sc,sig,when,r)
