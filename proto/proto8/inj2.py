import subprocess, os, sys
L='/repo/_build/lbzip2'
data=os.urandom(700000)
z=subprocess.run([L,'-1','-n','2'],input=data,capture_output=True).stdout
cases={'c':([L,'-1','-n','3'],data),'d':([L,'-d','-n','3'],z),'copy':([L,'-cdf','-n','2'],data)}
out={}
for name,(args,inp) in cases.items():
  for sc,errs in (('write',['EPIPE','EIO','ENOSPC','EFBIG']),('read',['EIO'])):
    for err in errs:
      for when in range(1,12):
        cmd=['strace','-f','-qq','-o','/dev/null','-e','trace='+sc,'-e','inject=%s:error=%s:when=%d'%(sc,err,when)]+args
        try:
            p=subprocess.run(cmd,input=inp,capture_output=True,timeout=10)
            r=(p.returncode, len(p.stderr)>0)
        except subprocess.TimeoutExpired:
            r=('HANG',None)
        out.setdefault((name,sc,err),[]).append(r)
for k,v in out.items(): print(k,v)
# early closed pipe
for name,(args,inp) in cases.items():
    p=subprocess.Popen(args,stdin=subprocess.PIPE,stdout=subprocess.PIPE,stderr=subprocess.PIPE)
    import threading
    def feed():
        try: p.stdin.write(inp); p.stdin.close()
        except Exception: pass
    t=threading.Thread(target=feed); t.start()
    p.stdout.read(10); p.stdout.close()
    try: rc=p.wait(timeout=10)
    except subprocess.TimeoutExpired: rc='HANG'; p.kill()
    t.join(); print('early-close',name,rc,p.stderr.read()[:80])
