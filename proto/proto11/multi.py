import os, random, shutil, subprocess, hashlib, sys
L='/repo/_build/lbzip2'
random.seed(int(sys.argv[1]) if len(sys.argv)>1 else 1)
def snap(d):
    r={}
    for f in sorted(os.listdir(d)):
        p=os.path.join(d,f); st=os.lstat(p)
        r[f]=(hashlib.md5(open(p,'rb').read()).hexdigest() if os.path.isfile(p) and not os.path.islink(p) else 'special', oct(st.st_mode&0o7777), int(st.st_mtime))
    return r
def mkfiles(d, mode, specs):
    for name,kind in specs:
        p=os.path.join(d,name)
        data={'text':b'some text '*random.randrange(1,2000),'rand':random.randbytes(random.randrange(1,200000)),'empty':b'','big':b'xy'*400000}[kind if kind in('text','rand','empty','big') else 'text']
        if mode=='d':
            z=subprocess.run([L,'-1','-n','2'],input=data,capture_output=True).stdout
            if kind=='corrupt': z=z[:len(z)//2]
            if kind=='notbz': z=b'this is not bzip2'
            open(p,'wb').write(z)
        else: open(p,'wb').write(data)
        os.chmod(p, random.choice([0o644,0o600,0o640,0o755])); t=random.randrange(10**9, 17*10**8); os.utime(p,(t,t))
viol=0
for it in range(int(sys.argv[2]) if len(sys.argv)>2 else 60):
    mode=random.choice('cd'); n=random.randrange(2,5)
    specs=[]
    for i in range(n):
        kind=random.choice(['text','rand','empty','big'] + (['corrupt','notbz'] if mode=='d' else []))
        suf=random.choice(['', '.bz2','.tbz','.dat'] ) if mode=='c' else random.choice(['.bz2','.bz2','.tbz2','.x'])
        specs.append(('f%d%s'%(i,suf),kind))
    flags=random.choice([[],['-k'],['-n','3'],['-u'] if mode=='c' else ['-k']])
    base=['-d'] if mode=='d' else ['-%d'%random.randrange(1,10)]
    A='/tmp/proto11/A'; B='/tmp/proto11/B'
    for d in (A,B): shutil.rmtree(d,ignore_errors=True); os.makedirs(d)
    st=random.getstate(); mkfiles(A,mode,specs); random.setstate(st); mkfiles(B,mode,specs)
    names=[s[0] for s in specs]
    pa=subprocess.run([L]+base+flags+names,cwd=A,capture_output=True)
    rcs=[]; 
    for nm in names:
        pb=subprocess.run([L]+base+flags+[nm],cwd=B,capture_output=True); rcs.append(pb.returncode)
        if pb.returncode==1: break       # a fatal error stops processing
    exp=1 if 1 in rcs else (4 if 4 in rcs else 0)
    sa,sb=snap(A),snap(B)
    if pa.returncode!=exp or sa!=sb:
        viol+=1; print("MISMATCH",mode,flags,specs,'rc',pa.returncode,'exp',exp,rcs); 
        for k in sorted(set(sa)|set(sb)):
            if sa.get(k)!=sb.get(k): print('   ',k,sa.get(k),sb.get(k))
print("iterations done, mismatches:",viol)
