#!/usr/bin/env python3
"""Craft a bzip2 file: block B (fixed 4-bit codes, payload spells the block magic = nested bogus
candidate b0), block C whose header straddles the first 256 KiB I/O-block boundary, block D = zero bomb."""
import sys, bz2, subprocess, struct, random

def crc_table():
    t=[]
    for i in range(256):
        c=i<<24
        for _ in range(8):
            c=((c<<1)^0x04C11DB7)&0xFFFFFFFF if c&0x80000000 else (c<<1)&0xFFFFFFFF
        t.append(c)
    return t
CT=crc_table()
def bzcrc(data):
    c=0xFFFFFFFF
    for b in data:
        c=((c<<8)&0xFFFFFFFF)^CT[(c>>24)^b]
    return c^0xFFFFFFFF

class BW:
    def __init__(s): s.bits=[]
    def put(s,n,v):
        for i in range(n-1,-1,-1): s.bits.append((v>>i)&1)
    def bytes(s):
        b=s.bits+[0]*((-len(s.bits))%8)
        return bytes(int(''.join(map(str,b[i:i+8])),2) for i in range(0,len(b),8))

def decode_syms(syms, used):
    """syms: list of symbols (0=RUNA,1=RUNB,2..=MTF idx v-1, last=EOB) -> tt bytes"""
    mtf=list(used); out=bytearray(); run=0; shift=0; 
    eob=len(used)+1
    for s in syms:
        if s<2:
            run+= (s+1)<<shift; shift+=1; continue
        if run: out+=bytes([mtf[0]])*run
        run=0; shift=0
        if s==eob: break
        ch=mtf.pop(s-1); mtf.insert(0,ch); out.append(ch)
    return bytes(out)

def ibwt(tt, idx):
    n=len(tt); cnt=[0]*256
    for b in tt: cnt[b]+=1
    cf=[0]*256; s=0
    for i in range(256): cf[i]=s; s+=cnt[i]
    nxt=[0]*n
    for i,b in enumerate(tt):
        nxt[cf[b]]=i; cf[b]+=1
    out=bytearray(); p=nxt[idx]
    for _ in range(n):
        out.append(tt[p]); p=nxt[p]
    return bytes(out)

def unrle(d):
    out=bytearray(); i=0; n=len(d)
    while i<n:
        b=d[i]; out.append(b); i+=1; run=1
        while i<n and d[i]==b and run<4:
            out.append(b); i+=1; run+=1
        if run==4:
            if i>=n: raise ValueError("missing run length")
            out+=bytes([b])*d[i]; i+=1
    return bytes(out)

def block_bits(syms, used, idx, crc):
    w=BW()
    w.put(24,0x314159); w.put(24,0x265359); w.put(32,crc); w.put(1,0); w.put(24,idx)
    big=0; packs=[0]*16
    for b in used: packs[b>>4]|=1<<(15-(b&15))
    for i in range(16):
        if packs[i]: big|=1<<(15-i)
    w.put(16,big)
    for i in range(16):
        if packs[i]: w.put(16,packs[i])
    nsel=(len(syms)+49)//50
    w.put(3,2); w.put(15,nsel)
    for _ in range(nsel): w.put(1,0)
    alpha=len(used)+2
    for t in range(2):
        w.put(5,4)
        for _ in range(alpha): w.put(1,0)
    for s in syms: w.put(4,s)
    return w.bits

def main():
    random.seed(1)
    used=list(range(0x41,0x41+14))       # 14 used bytes -> alpha 16, all codes 4 bits, code == symbol
    magic=[3,1,4,1,5,9,2,6,5,3,5,9]
    pre=[random.randrange(2,15) for _ in range(2000)]
    nested=magic+[7]*8+[0]*12             # fake crc, then rand/idx/bitmap bits all zero -> ERR_BITMAP quickly
    target_syms=int(sys.argv[1]) if len(sys.argv)>1 else 500000
    post=[random.randrange(2,15) for _ in range(target_syms-len(pre)-len(nested)-2)]
    syms=pre+nested+[5]+post+[15]
    tt=decode_syms(syms,used)
    idx=0
    plainB=unrle(ibwt(tt,idx))
    crcB=bzcrc(plainB)
    bitsB=block_bits(syms,used,idx,crcB)
    def single_block(data):
        z=subprocess.run(['/repo/_build/lbzip2','-9','-u','-n','1'],input=data,stdout=subprocess.PIPE,check=True).stdout
        assert z[:4]==b'BZh9'
        body=z[4:-10]
        assert body[:6]==bytes.fromhex('314159265359')
        assert body.count(bytes.fromhex('314159265359'))==1, "expected single block"
        crc=struct.unpack('>I',body[6:10])[0]
        bits=[]
        for by in body:
            for i in range(7,-1,-1): bits.append((by>>i)&1)
        return bits,crc
    plainC=b'hello world, block C\n'*50
    bitsC,crcC=single_block(plainC)
    plainD=b'\0'*46000000
    bitsD,crcD=single_block(plainD)
    w=BW(); w.put(32,0x425A6839)
    w.bits+=bitsB
    posC=len(w.bits)
    w.bits+=bitsC; w.bits+=bitsD
    comb=0
    for c in (crcB,crcC,crcD):
        comb=(((comb<<1)|(comb>>31))&0xFFFFFFFF)^c
    w.put(24,0x177245); w.put(24,0x385090); w.put(32,comb)
    data=w.bytes()
    open('crafted.bz2','wb').write(data)
    ref=bz2.decompress(data)
    assert ref==plainB+plainC+plainD, "libbz2 disagrees"
    print("ok: size",len(data),"C header at byte",posC/8,"boundary",4+262144, "B plain",len(plainB))
if __name__=="__main__": main()
