#!/usr/bin/env python3
"""Block B spans several I/O blocks; its first I/O block is nibble-coded (table 0, all 4-bit codes) and
contains a nested fake block that keeps decoding until the end of I/O block 0 (so its retriever returns MORE);
the rest of B uses 15-bit codes (table 1) so B stays under 900000 symbols."""
import sys, bz2, random, struct
sys.path.insert(0,'/tmp/proto4')
from craft import BW, bzcrc, decode_syms, ibwt, unrle

def bits_of(n,v): return [(v>>i)&1 for i in range(n-1,-1,-1)]
def small_maps(used):
    packs=[0]*16
    for b in used: packs[b>>4]|=1<<(15-(b&15))
    big=0
    for i in range(16):
        if packs[i]: big|=1<<(15-i)
    return big,packs
def table_bits(lens):
    out=bits_of(5,lens[0]); cur=lens[0]
    for l in lens:
        while cur<l: out+= [1,0]; cur+=1
        while cur>l: out+= [1,1]; cur-=1
        out.append(0)
    return out
def canon(lens):
    codes={}; vec=0
    for L in range(min(lens),max(lens)+1):
        for s,l in enumerate(lens):
            if l==L: codes[s]=(vec,L); vec+=1
        vec<<=1
    return codes

def nested_header(used2, N2):
    b=[]
    b+=bits_of(1,0)+bits_of(24,0)
    big,packs=small_maps(used2)
    b+=bits_of(16,big)
    for i in range(16):
        if packs[i]: b+=bits_of(16,packs[i])
    b+=bits_of(3,2)+bits_of(15,N2)
    b+=[0]+[1,0]*(N2-1)
    for t in range(2): b+=table_bits([4]*16)
    return b

def main():
    random.seed(2)
    IOB=262144
    used=[0x41+i for i in range(14)]           # B's alphabet: 14 bytes -> 16 symbols
    # nested alphabet: 14 bytes spread so that bitmap nibbles avoid 0xF: 12 in one group (mask 0x7777), 2 in another (0x6000)
    used2=[0x40+i for i in range(16) if (0x7777>>(15-i))&1]+[0x50+i for i in range(16) if (0x6000>>(15-i))&1]
    assert len(used2)==14
    N2=12000
    magic=[3,1,4,1,5,9,2,6,5,3,5,9]
    pre=[random.randrange(2,15) for _ in range(2000)]
    nh=nested_header(used2,N2); assert len(nh)%4==0
    nhn=[nh[i]*8+nh[i+1]*4+nh[i+2]*2+nh[i+3] for i in range(0,len(nh),4)]
    assert 15 not in nhn, "nested header has an F nibble at %s"%[i for i,x in enumerate(nhn) if x==15][:5]
    region1=pre+magic+[7]*8+nhn
    # header of B itself is ~ (80+25+16+32+18)/8 bytes + selectors + tables; fill region 1 until past the first I/O block
    target1=2*(IOB+4)+4000     # nibbles: well past file offset 4+IOB
    region1+= [random.randrange(2,15) for _ in range(target1-len(region1))]
    while len(region1)%50: region1.append(random.randrange(2,15))
    n2=int(sys.argv[1]) if len(sys.argv)>1 else 290000
    region2=[2+(i&1) for i in range(n2)]
    syms=region1+region2+[15]
    lens0=[4]*16
    lens1=[1,2,15,15]+list(range(3,14))+[14]
    assert len(lens1)==16 and abs(sum(2.0**-l for l in lens1)-1)<1e-12
    c0=canon(lens0); c1=canon(lens1)
    g1=len(region1)//50; ngroups=(len(syms)+49)//50
    tt=decode_syms(syms,used); plain=unrle(ibwt(tt,0)); crc=bzcrc(plain)
    w=BW(); w.put(32,0x425A6839)
    w.put(24,0x314159); w.put(24,0x265359); w.put(32,crc); w.put(1,0); w.put(24,0)
    big,packs=small_maps(used); w.put(16,big)
    for i in range(16):
        if packs[i]: w.put(16,packs[i])
    w.put(3,2); w.put(15,ngroups)
    for g in range(ngroups):
        if g<g1 or g>g1: w.put(1,0)
        else: w.put(2,2)
    w.bits+=table_bits(lens0); w.bits+=table_bits(lens1)
    hdrbits=len(w.bits)
    for i,s in enumerate(syms):
        code,L=(c0 if i//50<g1 else c1)[s]
        w.put(L,code)
    comb=crc
    w.put(24,0x177245); w.put(24,0x385090); w.put(32,comb)
    data=w.bytes(); open('crafted2.bz2','wb').write(data)
    ref=bz2.decompress(data); assert ref==plain
    print("ok size",len(data),"B hdr bits",hdrbits,"hdr nibble aligned:",hdrbits%4,"region1 ends at byte",(hdrbits+4*len(region1))/8,"ngroups",ngroups,"tt",len(tt))
main()
