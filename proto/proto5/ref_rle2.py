import itertools, subprocess
from ref_rle import rle, greedy
cases=[]
for L in range(0,10):
    for t in itertools.product(b'ab',repeat=L):
        s=bytes(t)
        for cap in range(1,8):
            for a in range(0,L+1):
                for b in range(a,L+1):
                    cases.append((cap,s,(a,b-a,L-b)))
open('in2.txt','w').write('\n'.join("%d 3 %d %d %d %s"%(cap,sp[0],sp[1],sp[2],s.hex() or "00") for cap,s,sp in cases)+'\n')
out=subprocess.run(['./h_rle'],stdin=open('in2.txt'),capture_output=True,text=True).stdout.splitlines()
bad=0
for (cap,s,sp),o in zip(cases,out):
    calls=[c.split() for c in o.split(' F ')[0].split(';') if c.strip()]
    cons=sum(int(c[1]) for c in calls)
    fl=o.split(' F ')[1].split(); blk=bytes.fromhex(fl[1]) if len(fl)>1 else b''
    g=greedy(s,cap)
    if not (cons==g and blk==rle(s[:g])):
        bad+=1
        if bad<10: print("MISMATCH",cap,s,sp,"cons",cons,blk,"greedy",g,rle(s[:g]),o)
print("cases",len(cases),"bad",bad)
