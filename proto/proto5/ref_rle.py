import itertools, subprocess, sys
def rle(s):
    out=bytearray(); i=0; n=len(s)
    while i<n:
        j=i
        while j<n and s[j]==s[i] and j-i<259: j+=1
        k=j-i
        if k>=4: out+=bytes([s[i]])*4+bytes([k-4])
        else: out+=bytes([s[i]])*k
        i=j
    return bytes(out)
def greedy(s,cap):
    best=0
    for p in range(len(s)+1):
        if len(rle(s[:p]))<=cap: best=p
        else: break
    return best
if __name__=="__main__":
    cases=[]
    for L in range(0,12):
        for t in itertools.product(b'ab',repeat=L):
            s=bytes(t)
            for cap in range(1,9):
                cases.append((cap,s))
    inp=[]
    for cap,s in cases:
        # one call with whole input, plus all 2-way splits
        inp.append("%d 1 %d %s"%(cap,len(s),s.hex() or "00"))
    open('in1.txt','w').write('\n'.join(inp)+'\n')
    out=subprocess.run(['./h_rle'],stdin=open('in1.txt'),capture_output=True,text=True).stdout.splitlines()
    bad=0
    for (cap,s),o in zip(cases,out):
        parts=o.split(';'); first=parts[0].split()
        done,cons,nb,st=int(first[0]),int(first[1]),int(first[2]),int(first[3])
        fl=o.split(' F ')[1].split(); blk=bytes.fromhex(fl[1]) if len(fl)>1 else b''
        g=greedy(s,cap)
        exp_blk=rle(s[:g])
        # if the whole input fits and the block is not full, done may be 0 (needs more input)
        ok = (cons==g and blk==exp_blk) 
        if not ok:
            bad+=1
            if bad<10: print("MISMATCH cap",cap,s,"code consumed",cons,"blk",blk,"| greedy",g,exp_blk,"done",done)
    print("cases",len(cases),"bad",bad)
