#define _GNU_SOURCE
#include <stdio.h>
#include <string.h>

#include "../../repo/src/encode.c"
#include <stdlib.h>
/* stdin lines: cap nsplits len0 len1 ... hexinput ; output: for each call: ret consumed nblock ; then block hex after each call */
int main(void){
  char line[1<<16];
  while (fgets(line, sizeof line, stdin)) {
    unsigned cap, ns; int off=0, n;
    if (sscanf(line, "%u %u%n", &cap, &ns, &n) != 2) break; off += n;
    size_t lens[16]; for (unsigned i=0;i<ns;i++){ unsigned l; sscanf(line+off, "%u%n", &l, &n); off+=n; lens[i]=l; }
    char hex[1<<15]; hex[0]=0; sscanf(line+off, "%s", hex);
    size_t L = strlen(hex)/2; uint8_t *in = malloc(L+1);
    for (size_t i=0;i<L;i++){ unsigned v; sscanf(hex+2*i, "%2x", &v); in[i]=v; }
    struct encoder_state *e = malloc(encoder_alloc_size(cap) + 64);
    encoder_init(e, cap, 1);
    size_t pos=0; int done=0;
    for (unsigned i=0;i<ns && !done;i++){
      size_t left = lens[i]; size_t before = left;
      done = collect(e, in+pos, &left);
      pos += before-left;
      printf("%d %zu %u %d ;", done, before-left, e->nblock, e->rle_state);
    }
    /* flush like encode() */
    uint8_t *block = (void *)(e->SA + e->max_block_size + GROUP_SIZE);
    unsigned nb = e->nblock;
    if (e->rle_state >= 4) block[nb++] = e->rle_state - 4;
    printf(" F %u ", nb);
    for (unsigned i=0;i<nb;i++) printf("%02x", block[i]);
    printf("\n");
    free(e); free(in);
  }
  return 0;
}
