#define _GNU_SOURCE
#include <stdio.h>
#include <string.h>
#include "../../repo/src/decode.c"
void *xmalloc(size_t n){ void *p = malloc(n); if(!p) abort(); return p; }
/* line: hexblock  bufsz1 bufsz2 ... (cycled)  -> prints status and output hex */
int main(void){
  char line[1<<16];
  while (fgets(line, sizeof line, stdin)) {
    char hex[4096]; int off=0,n; if (sscanf(line, "%s%n", hex, &n)!=1) break; off=n;
    unsigned sizes[64]; int ns=0; unsigned v; while (sscanf(line+off, "%u%n", &v, &n)==1) { sizes[ns++]=v; off+=n; }
    size_t L = strcmp(hex,"-")==0 ? 0 : strlen(hex)/2;
    struct decoder_state ds; memset(&ds,0,sizeof ds);
    ds.tt = malloc((L+1)*sizeof(uint32_t));
    for (size_t i=0;i<L;i++){ unsigned b; sscanf(hex+2*i,"%2x",&b); ds.tt[i] = ((uint32_t)(i+1)<<8) + b; }
    ds.block_size = L; ds.rle_state=0; ds.rle_crc=-1; ds.rle_index=0; ds.rle_avail=L; ds.rle_prev=0; ds.rle_char=0;
    unsigned char out[70000]; size_t total=0; int rv, k=0;
    do { size_t sz = sizes[k % ns]; k++; size_t left = sz; rv = emit(&ds, out+total, &left); total += sz-left; } while (rv == MORE && k < 100000);
    printf("%d %08x ", rv, rv==OK ? ds.crc : 0);
    for (size_t i=0;i<total;i++) printf("%02x", out[i]);
    printf("\n");
    free(ds.tt);
  }
  return 0;
}
