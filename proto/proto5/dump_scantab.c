#include <stdio.h>
#include "/repo/src/scantab.h"
int main(void){ printf("{\"mini\":["); for(int s=0;s<48;s++) printf("%s[%d,%d]", s?",":"", mini_dfa[s][0], mini_dfa[s][1]); printf("],\"big\":["); for(int s=0;s<49;s++){ printf("%s[", s?",":""); for(int c=0;c<256;c++) printf("%s%d", c?",":"", big_dfa[s][c]); printf("]"); } printf("]}\n"); return 0; }
